"""keep_seed.py <name> <property> <caught_by csv> <missed_before csv|-> <needs...>
Copy a confirmed seeded change from /tmp/seed/out/<name> to /verif/seeded/<name>/ with meta.json."""
import json, os, shutil, sys, subprocess
name, prop, caught, missed = sys.argv[1:5]
needs = " ".join(sys.argv[5:])
src = "/tmp/seed/out/%s" % name
dst = "/verif/seeded/%s" % name
os.makedirs(dst, exist_ok=True)
for f in ("patch.diff", "demo.py", "notes.md"):
    if os.path.exists(os.path.join(src, f)):
        shutil.copy(os.path.join(src, f), os.path.join(dst, f))
base = subprocess.check_output(["git", "-C", "/repo", "rev-parse", "--short", "HEAD"]).decode().strip()
meta = {"id": name, "property": prop, "base_commit": base,
        "needs_to_manifest": needs,
        "confirmed": {"applies_to_base": True, "pinned_suite_30_pass_with_change": True,
                      "demo_exit0_unchanged": True, "demo_nonzero_changed": True,
                      "how": "tools/try_seed.sh %s <checks> (scratch worktree of /repo HEAD, git apply, tools/pinned_tests.sh, demo.py on both trees, checks with TOPSIM_REPO=<worktree>)" % dst},
        "caught_by_quick_checks": [c for c in caught.split(",") if c and c != "-"],
        "missed_before_strengthening": [c for c in missed.split(",") if c and c != "-"],
        "author": "independent sub-agent given only the property text and a scratch worktree"}
json.dump(meta, open(os.path.join(dst, "meta.json"), "w"), indent=1)
print("kept", dst)
