"""C07 -- buffer space is conserved and never over-/under-flows."""
from .. import e1, monitors, world, engine, run as runmod
from ..scopes import mkobs, mkcfg, mkcase, dag, CLUSTERS
from . import common

RULE = ("E1: S-buffer (hot capacity on both sides of the tiering threshold, "
        "second observation fits / does not fit while the first is resident, "
        "cold smaller than hot, both rate orders) + S-contend subset x "
        "shipped pairings x workflow lengths; ledger oracle: after every "
        "event 0<=free<=capacity in both tiers; at every boundary "
        "hot_used+cold_used == sum over resident observations of "
        "rate*clamp(t-ast,0,duration); deposits exactly rate per step for "
        "duration steps; freed == rate*duration; both tiers full-free at the "
        "end; rate above the maximum raises at first deposit; non-trivial = "
        "data was resident")


def monitors_for(case):
    return [monitors.BufferConservation()]


def overrate_cases():
    out = []
    for hot_rate, rate in ((1, 2), (2, 3), (3, 5)):
        obs = [mkobs("a", 0, 2, rate, 1, 1, "wa")]
        cfg = mkcfg(CLUSTERS[1][0], obs, (100, hot_rate), (100, 10), 2, 2)
        out.append(mkcase(cfg, {"wa": dag("single", [1])},
                          {"kind": "queue"}))
        obs = [mkobs("a", 0, 2, 1, 1, 1, "wa"),
               mkobs("b", 1, 2, rate, 1, 1, "wb")]
        cfg = mkcfg(CLUSTERS[2][0], obs, (100, hot_rate), (100, 10), 2, 2)
        out.append(mkcase(cfg, {"wa": dag("single", [1]),
                                "wb": dag("single", [1])},
                          {"kind": "batch", "p": 1, "min": 1}))
    # maxima that are not whole numbers per timestep: a rate between the
    # maximum and the next whole number is above the maximum
    for unit, hot_rate, rate, dur in (("seconds", 11.5, 12, 2),
                                      ("seconds", 2.5, 3, 3),
                                      ("minutes", 0.0125, 1 / 60, 120),
                                      ("minutes", 0.04, 3 / 60, 60)):
        obs = [mkobs("a", 0, dur, rate, 1, 1, "wa")]
        cfg = mkcfg(CLUSTERS[1][0], obs, (10000, hot_rate), (10000, 100), 2,
                    2, timestep=unit)
        for alg in ({"kind": "queue"}, {"kind": "batch", "p": 1, "min": 1}):
            out.append(mkcase(cfg, {"wa": dag("single", [1])}, alg))
    return out


def _max_per_step(case):
    return case["cfg"]["hot"][1] * world.unit_factor(
        case["cfg"].get("timestep", "seconds"))


def cases(tier, seed):
    lvl = "thorough" if tier == "thorough" else "quick"
    buf = list(common.buffer_scope(lvl))
    con = common.thin(common.contend(lvl), 4 if tier != "thorough" else 1)
    out = common.add_algs(buf + con, lambda c: common.shipped(
        c, lvl, "diag", greedy=(tier == "thorough")), feasible_only=True)
    if tier == "thorough":
        b3 = common.add_algs(common.buffer3_scope(), lambda c: [
            {"kind": "queue"}, {"kind": "batch", "p": 1, "min": 1},
            {"kind": "batch", "p": 2, "min": 1}])
        out += b3
        # task delays keep data resident longer
        out = [(sc, dict(c, delay={"mode": "choice", "arity": 3})
                if c["alg"]["kind"] in ("queue", "batch") else c)
               for sc, c in out]
    out += common.add_algs(common.park_scope(lvl), common.park_algs)
    out += common.add_algs(common.park2_scope(lvl), common.park_algs)
    return common.rotate(out, seed)


def run(rep, tier, seed):
    rep.rule = RULE
    rep.assumptions = [
        "admission is judged by C08; here only the accounting",
        "timestep unit 'seconds' and 'minutes' (unit scaling itself is C16)"]
    cs = cases(tier, seed)
    # unit variant: same physical config in minutes
    extra = []
    # (every S-park case, 1/25 of the others)
    for sc, c in [x for x in cs if x[0] == "S-park"] + common.thin(
            [x for x in cs if x[0] != "S-park"], 25):
        cc = dict(c)
        cfg = dict(c["cfg"])
        cfg["timestep"] = "minutes"
        cfg["obs"] = [dict(o, start=o["start"] * 60, dur=o["dur"] * 60)
                      for o in cfg["obs"]]
        cfg["hot"] = [cfg["hot"][0] * 60, cfg["hot"][1]]
        cfg["cold"] = [cfg["cold"][0] * 60, cfg["cold"][1]]
        cc["cfg"] = cfg
        if world.feasible(cc):
            extra.append((sc + "/minutes", cc))
    cs = cs + extra
    e1.sweep(rep, cs, monitors_for,
             {"delay": 1} if tier == "thorough" else {})
    e1.conformance(rep, cs[::max(1, len(cs) // 40)])
    # rate above the maximum must raise at the first deposit
    for case in overrate_cases():
        r = runmod.execute(case, [monitors.BufferConservation()], (),
                           60, True)
        rep.evaluations += 1
        rep.transitions += r.probe.n_events
        rep.scope("S-overrate")["cases"] += 1
        rep.scope("S-overrate")["executions"] += 1
        deps = [c for c in r.probe.calls if c["kind"] == "deposit"]
        bad = [c for c in deps if c["raised"] is None
               and c["rate"] > _max_per_step(case) + 1e-9]
        if r.outcome != "exception" or bad:
            rep.violation("C07.over-rate-rejected",
                          "over-rate-ingest-accepted",
                          {"engine": "E1", "case": case, "prefix": [],
                           "horizon": 60, "light": True, "overrate": True},
                          {"outcome": r.outcome, "accepted": bad[:2]},
                          "S-overrate")

    rep.confirm = replay


def replay(payload):
    if payload.get("overrate"):
        case = payload["case"]
        r = runmod.execute(case, [], (), 60, True)
        deps = [c for c in r.probe.calls if c["kind"] == "deposit"]
        bad = [c for c in deps if c["raised"] is None
               and c["rate"] > _max_per_step(case) + 1e-9]
        if r.outcome != "exception" or bad:
            return [{"clause": "C07.over-rate-rejected",
                     "cause": "over-rate-ingest-accepted", "detail": None}]
        return []
    vs, _ = e1.replay_payload(payload, monitors_for)
    return vs
