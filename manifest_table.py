"""Source of MANIFEST.json (tools/gen_manifest.py)."""
TB = ("real topsim code from /repo's working tree under CPython 3.12 + SimPy 4.1; "
      "the harness seams in /verif/mc/seams.py (probe environment, wrappers); "
      "bounded scopes as listed in the evidence file")
CHECKS = {
 "C01": {"engine": "E1",
         "technique": "stateless model checking of the implementation: exhaustive enumeration of small configurations x algorithm pairings x deviation-bounded choice sequences (delays, adversarial proposals, tie promotions)",
         "text": "Every execution of every enumerated configuration (<=3 machines, 2-3 competing observations, catalogue DAGs, all shipped pairings incl. all static assignments, adversarial user algorithms with <=1/2 illegal proposals, <=1/2 delayed tasks, <=1/2 promotions among tied allocation processes) is run on the real code and after every SimPy event no machine has two live task activations. Exhaustive within these bounds, nothing sampled.",
         "note": TB + "; static planning side is an enumerated-assignment model, not SHADOW"},
}
NOT_APPLICABLE = {}
NOTES = ("All checks: /venv/bin/python check.py <id> --tier quick|thorough, cwd /verif; exit 2 = harness error. "
         "Known findings: /verif/known_findings.json. Design: /verif/DESIGN.md.")
