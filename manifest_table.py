"""Source of MANIFEST.json (tools/gen_manifest.py)."""
TB = ("real topsim code from /repo's working tree under CPython 3.12 + SimPy 4.1; "
      "the harness seams in /verif/mc/seams.py (probe environment, wrappers); "
      "bounded scopes as listed in the evidence file")
CHECKS = {
 "C01": {"engine": "E1",
         "technique": "stateless model checking of the implementation: exhaustive enumeration of small configurations x algorithm pairings x deviation-bounded choice sequences (delays, adversarial proposals, tie promotions)",
         "text": "Every execution of every enumerated configuration (<=3 machines, 2-3 competing observations, catalogue DAGs, all shipped pairings incl. all static assignments, adversarial user algorithms with <=1/2 illegal proposals, <=1/2 delayed tasks, <=1/2 promotions among tied allocation processes) is run on the real code and after every SimPy event no machine has two live task activations. Exhaustive within these bounds, nothing sampled.",
         "note": TB + "; static planning side is an enumerated-assignment model, not SHADOW"},
}
def _e1(text, note=TB, technique=None, engine="E1"):
    return {"engine": engine, "text": text, "note": note,
            "technique": technique or "stateless model checking of the implementation: exhaustive enumeration of small configurations x algorithm pairings x deviation-bounded dynamic choices, oracle after every discrete event"}

CHECKS.update({
 "C02": _e1("Explicit-state BFS over all cluster operation histories (27+ operations, M=2 to depth 6/9, M=3 to depth 4/6, state matching) on the real Cluster plus the partition/counter oracle after every event of the simulation scopes: pools are always a permutation of the machines, each machine's pool matches its live activations, refusals are clean, the three counters are true, everything is returned at the end.", engine="E2+E1",
            technique="explicit-state breadth-first search over operation sequences on the real Cluster with canonical state matching, plus stateless exploration of simulation trajectories"),
 "C03": _e1("For every enumerated DAG x edge volumes x heterogeneous cluster x shipped pairing (all static assignments) x 1-2 workflows x <=1/2 delayed tasks, each task's recorded start is checked against its predecessors' finishes and the exact expected start max(allocation, arrivals)."),
 "C04": _e1("Every run that returns, over contention/buffer/plan scopes x shipped and adversarial algorithms x tie promotions x delays, has each observation observed once, each ingest/workflow task activated exactly once, a quiescent final state and a task table with one row per executed task (FULL-mode on a conformance subset)."),
 "C05": _e1("Every configuration of the buffer/plan/batch/contention scopes that satisfies the feasibility predicate is run under the serial-bound horizon; a crash or a horizon hit is a violation classified by crash site / stuck-state class."),
 "C06": _e1("All (comp, data, cpu, bw, delay, unit) tuples of the stated ranges through the real allocate_task_to_cluster/do_work, all ingest durations, observed-table monotonicity, two-step histories (same task first on a same-id machine of another speed/unit in the same process), plus the per-task equation on every run of the C03 scopes.", engine="E3+E1",
            technique="exhaustive finite-domain enumeration of the real task/cluster component against a reference formula, plus stateless exploration of simulation trajectories"),
 "C07": _e1("Ledger reference model compared with both tiers' free space after every event / at every timestep boundary over buffer-size scopes on both sides of the tiering threshold, overlapping observations, unit variants; over-rate configurations must raise."),
 "C08": _e1("Every observation start in plan/buffer/contention scopes is checked against the state at that moment (arrays, free machines, ingest limit, hot and cold room), array use and ingest pool are bounded after every event, ingest holds exactly demand x duration, on-time start when idle."),
 "C09": _e1("Reservation ledger checked after every event for every batch configuration (M 2-4, partitions 1-3, min 1-2, per-observation splits, 2-3 competing observations) incl. tie promotions, reservations taken and released in sequence, and fresh runs after an abandoned run of the same process; adversarial batch algorithm for the exclusivity clauses."),
 "C17": _e1("ALL task->machine assignments of catalogue DAGs on 2-3 heterogeneous machines under ingest/workflow contention and delays: every activation's machine equals the planned one, also when ONE policy object drives two simulations with different plans (all ordered pairs of assignments of small workflows); vacuity guard requires runs in which a task waited for its planned machine while another was free."),
 "C19": _e1("The five queries are evaluated after every event of every explored run and in every state of the cluster-history BFS, and compared with independently probed truth.", engine="E1+E2",
            technique="stateless exploration of simulation trajectories with a truth oracle after every event, plus explicit-state BFS over cluster operation histories"),
})
CHECKS.update({
 "C10": _e1("The explorer owns set-iteration order through Task.__hash__: every permutation (<=120) of the hash order of a case's tasks is executed and all boundary trajectories, task tables and call logs must coincide; first/last permutation and a back-to-back repeat also in FULL mode (tables, event log); the seam is bound to the interpreter by separate-process runs under 8/64 real PYTHONHASHSEED values that must reproduce the enumerated output; the output of a case run right after other simulations of the same process (complete on other machine speeds, abandoned) must equal its output alone (complete run on other machine speeds, abandoned run, edited workflow files under the same names, batch run with other partitioning).",
            technique="exhaustive enumeration of set-iteration orders (hash permutations) on the real simulation, conformance-checked against separate interpreter processes with real hash seeds"),
 "C11": _e1("For every pause point k and every bounded split of the remainder, start(k);resume(..) is executed on the real Simulation with the real Monitor and compared (trajectory, per-timestep table, task table, event log) with one uninterrupted run; double start / early resume must raise and change nothing.",
            technique="exhaustive enumeration of pause/resume histories on the real simulation against an uninterrupted reference run"),
 "C12": _e1("With the real Monitor, every row t of the per-timestep table of every explored run is compared with the state probed at the beginning of timestep t, and the row count with the number of instants simulated."),
 "C13": _e1("With the real Monitor, the event log of every explored run (and of start(k);resume(T) for every k on a subset) is compared with the life-cycle transitions the harness itself observed: exactly once, time stamp, causal order, duration; the same oracle over much wider sets with the real Monitor loop and real collate_events but without the per-step dataframes (log compared with the full mode), including every buffer-scope history in which a workflow ends during a tier move."),
 "C14": _e1("All labelled DAGs up to 4 (quick) / 5 (thorough) nodes with shuffled non-contiguous ids, data-demand and volume variants, two name/clock pairs are planned by the real Planner/BatchPlanning and compared with the workflow JSON.", engine="E3",
            technique="exhaustive finite-domain enumeration (all labelled DAGs up to a size) against a reference"),
 "C15": _e1("Every (distribution, degree, probability, seed, runtime) of the stated ranges through the real DelayModel, and every delay vector in {0,1,2}^n injected into small simulations: never fails, never shortens, identity cases, deterministic also after an earlier call that differs in one argument (every two-call history from a freshly executed private copy of the module), flagged and reported (DAGs incl. unequal parallel branches).", engine="E3+E1",
            technique="exhaustive finite-domain enumeration of DelayModel.generate_delay plus exhaustive delay-vector injection into the real simulation"),
 "C16": _e1("Every unit spelling/factor x base configuration tuple is parsed by the three real Config.parse_* methods in seconds and in the unit and compared quantity by quantity, including cross-section invariants, in five load/parse orders; small whole-multiple configurations are SIMULATED in seconds and in the unit and task runtimes / ingest durations in seconds and ingested volumes must agree.", engine="E3+E1",
            technique="exhaustive finite-domain enumeration of configurations x units against the scaling law"),
 "C18": _e1("All sizes x both rates x destination capacities x move histories (single moves, round trips) on a real Buffer with the real move processes stepped instant by instant against the min-rate reference.", engine="E2",
            technique="explicit enumeration of move histories on the real Buffer with a lock-step reference model, checked after every timestep"),
})
NOT_APPLICABLE = {}
NOTES = ("All checks: /venv/bin/python check.py <id> --tier quick|thorough, cwd /verif; exit 2 = harness error. "
         "Known findings: /verif/known_findings.json. Design: /verif/DESIGN.md.")
