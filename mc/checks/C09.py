"""C09 -- batch reservations are exclusive, bounded and released."""
from .. import e1, monitors, world
from . import common

RULE = ("E1: S-batch (M in {2,3,(4)}, partitions {1,2,(3)}, min {1,2}, "
        "per-observation splits, 2-3 observations whose workflows and "
        "ingests compete, catalogue DAGs) x BatchProcessing and the "
        "adversarial batch algorithm; tie promotions; reservation ledger "
        "checked after every event (stable, disjoint, not on ingest, no "
        "foreign task, allocations only from own reservation, count <= "
        "partitions, size within bounds, returned to the free pool); "
        "plus the same runs started after an ABANDONED earlier simulation "
        "of the same process (stopped at k in {3,5,8}/{2..11} with "
        "reservations live); "
        "non-trivial = two live reservations or ingest during a reservation")


def monitors_for(case):
    return [monitors.Reservations()]


def cases(tier, seed):
    lvl = "thorough" if tier == "thorough" else "quick"
    bat = list(common.batch_scope(lvl))
    out = []
    for sc, c in common.add_algs(bat, lambda c: common.batch_algs(c, lvl)):
        out.append((sc, c))
    for sc, c in common.add_algs(common.batch_seq_scope(lvl),
                                 common.batch_seq_algs):
        out.append((sc, c))
    for sc, c in common.add_algs(common.wide_scope(lvl), lambda c: [
            a for a in common.wide_algs(c, lvl) if a["kind"] == "batch"]):
        out.append((sc, c))
    for sc, c in common.thin(bat, 8 if tier != "thorough" else 1):
        if tier != "thorough" and len(c["cfg"]["obs"]) > 2:
            continue      # 3-observation adversary cases: thorough only
        for p in (1, 2):
            cc = dict(c)
            cc["alg"] = {"kind": "advbatch", "p": p, "min": 1,
                         "budget": 2 if tier == "thorough" else 1}
            if world.feasible(cc):
                out.append((sc + "/adversary", cc))
    # a fresh simulation after an ABANDONED one in the same process (the
    # earlier run was stopped at time k with reservations still live): the
    # new cluster must start with no reservation
    plain = [(sc, c) for sc, c in out if c["alg"]["kind"] == "batch"
             and sc.startswith("S-batch")]
    for sc, c in common.thin(plain, 6 if tier != "thorough" else 2):
        for k in ((3, 5, 8) if tier != "thorough" else (2, 3, 4, 5, 6, 8, 11)):
            first = dict(c, runtime=k)
            out.append((sc + "/after-abandoned-run",
                        dict(c, before=[first])))
    # ONE BatchProcessing object drives a run on a bigger cluster and then
    # this run (a parameter sweep that builds the policy once)
    for sc, c in common.thin(plain, 4 if tier != "thorough" else 1):
        alg = dict(c["alg"], reuse="p")
        for extra in (1, 3, 5):
            cfg = c["cfg"]
            bigger = dict(cfg, machines=list(cfg["machines"])
                          + [[1, 1]] * extra)
            first = dict(c, cfg=bigger, alg=alg)
            out.append((sc + "/policy-object-reused-after-bigger-cluster",
                        dict(c, alg=alg, before=[first])))
    # ... with an observation whose own ingest holds all but one machine
    # when its workflow is handed over (fewer free machines than the minimum)
    from ..scopes import mkobs, mkcfg, mkcase, dag, CLUSTERS
    for M in (3, 4):
        for wf in (dag("fork", [1, 2, 1], [0, 0]), dag("chain2", [2, 2], [1])):
            for dur in (1, 2, 3):
                obs = [mkobs("a", 0, dur, 1, 1, M - 1, "wa")]
                cfg = mkcfg(CLUSTERS[M][0], obs, (100, 10), (100, 10), 2,
                            M - 1)
                for extra in (2, 5):
                    alg = {"kind": "batch", "p": 1, "min": 2, "reuse": "p"}
                    bigger = dict(cfg, machines=list(cfg["machines"])
                                  + [[1, 1]] * extra)
                    c = mkcase(cfg, {"wa": wf}, alg)
                    out.append(("S-sweep/policy-object-reused-after-bigger-"
                                "cluster", dict(c, before=[dict(
                                    c, cfg=bigger)])))
    if tier == "thorough":
        out = [(sc, dict(c, budget_override=dict(
            common.thorough_override(c, i), **c.get("budget_override", {}))))
            for i, (sc, c) in enumerate(out)]
    return common.rotate(out, seed)


def run(rep, tier, seed):
    rep.rule = RULE
    rep.assumptions = [
        "a reservation = the machines in the cluster's reserved-idle list of "
        "an observation plus those running that observation's tasks"]
    cs = cases(tier, seed)
    budgets = ({"adv": 2, "tie": 2} if tier == "thorough"
               else {"adv": 1, "tie": 1})
    e1.sweep(rep, cs, monitors_for, budgets, tie=True)
    e1.conformance(rep, [x for x in cs if x[1]["alg"]["kind"] == "batch"][
        ::max(1, len(cs) // 40)])


def replay(payload):
    vs, _ = e1.replay_payload(payload, monitors_for)
    return vs
