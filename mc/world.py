"""Cases: small explicit configurations, materialised as the JSON files that
the real ``Config`` / planning code reads (N1 of DESIGN.md).

A *case* is a plain JSON-able dict::

    {"cfg": {"machines": [[cpu, bw], ...], "sysbw": 1, "arrays": 2,
             "max_ingest": 1, "timestep": "seconds",
             "hot": [capacity, rate], "cold": [capacity, rate],
             "obs": [{"name": "a", "start": 0, "dur": 2, "demand": 1,
                      "rate": 1, "ingest": 1, "wf": "w0"}, ...]},
     "wfs": {"w0": {"nodes": [[id, comp, task_data|None], ...],
                    "edges": [[u, v, vol], ...]}},
     "alg": {...},            # see seams.make_algorithms
     "delays": {...}, "choices": [...], ...}

Files are written once per content hash into a per-process scratch directory
(tmpfs when available) that is removed at exit.
"""
import atexit
import hashlib
import json
import math
import os
import shutil
import tempfile

_SCRATCH = None


def scratch_dir():
    global _SCRATCH
    if _SCRATCH is None or not os.path.isdir(_SCRATCH) \
            or _SCRATCH_PID != os.getpid():
        _new_scratch()
    return _SCRATCH


_SCRATCH_PID = None


def _shm_base():
    return "/dev/shm" if os.path.isdir("/dev/shm") and os.access(
        "/dev/shm", os.W_OK) else tempfile.gettempdir()


def make_root():
    """One scratch ROOT per top-level checker process (called by check.py);
    every worker, confirmation child and sub-interpreter puts its files in a
    sub-directory of it (they inherit TOPSIM_MC_SCRATCH_ROOT), and the
    top-level process removes the whole root when it ends -- forked workers
    leave through os._exit and never run their own atexit handlers.  Roots of
    dead processes (killed runs) are swept here as well."""
    base = _shm_base()
    for name in os.listdir(base):
        if name.startswith("topsim-mc-"):
            parts = name.split("-")
            pid = parts[2] if len(parts) > 3 and parts[2].isdigit() else None
            if pid is not None and not os.path.exists("/proc/%s" % pid):
                shutil.rmtree(os.path.join(base, name), ignore_errors=True)
    root = tempfile.mkdtemp(prefix="topsim-mc-%d-" % os.getpid(), dir=base)
    os.environ["TOPSIM_MC_SCRATCH_ROOT"] = root
    return root


def remove_root(root):
    shutil.rmtree(root, ignore_errors=True)
    if os.environ.get("TOPSIM_MC_SCRATCH_ROOT") == root:
        del os.environ["TOPSIM_MC_SCRATCH_ROOT"]


def _new_scratch():
    global _SCRATCH, _SCRATCH_PID
    root = os.environ.get("TOPSIM_MC_SCRATCH_ROOT")
    if root and os.path.isdir(root):
        _SCRATCH = tempfile.mkdtemp(prefix="p%d-" % os.getpid(), dir=root)
        _SCRATCH_PID = os.getpid()
        return
    # no top-level root (module used outside check.py): own directory,
    # removed at exit of this very process
    _SCRATCH = tempfile.mkdtemp(prefix="topsim-mc-%d-x-" % os.getpid(),
                                dir=_shm_base())
    _SCRATCH_PID = os.getpid()
    d, pid = _SCRATCH, _SCRATCH_PID

    def _rm():
        if os.getpid() == pid:
            shutil.rmtree(d, ignore_errors=True)
    atexit.register(_rm)


def _digest(obj):
    return hashlib.sha1(
        json.dumps(obj, sort_keys=True).encode()).hexdigest()[:16]


def workflow_json(wf):
    nodes = []
    for n in wf["nodes"]:
        d = {"comp": n[1], "id": n[0]}
        if len(n) > 2 and n[2] is not None:
            d["task_data"] = n[2]
        nodes.append(d)
    edges = [{"transfer_data": e[2], "source": e[0], "target": e[1]}
             for e in wf["edges"]]
    return {"header": {"time": False},
            "graph": {"directed": True, "multigraph": False, "graph": {},
                      "nodes": nodes, "edges": edges}}


def machine_ids(cfg):
    """machine ids; cfg['mids'] may name them explicitly (e.g. numbered per
    category, 'cat0_m0', 'cat1_m0', as the repository's configs do)"""
    if cfg.get("mids"):
        return list(cfg["mids"])
    return ["m%d" % i for i in range(len(cfg["machines"]))]


def percat_ids(n):
    """ids numbered per category: cat0_m0, cat1_m0, cat1_m1, cat2_m0 ..."""
    out, cat, k = [], 0, 0
    while len(out) < n:
        out.append("cat%d_m%d" % (cat, k))
        if k >= cat:
            cat, k = cat + 1, 0
        else:
            k += 1
    return out


def config_json(cfg, wf_files):
    tel = {"total_arrays": cfg["arrays"],
           "max_ingest_resources": cfg["max_ingest"],
           "pipelines": {}, "observations": []}
    for o in cfg["obs"]:
        tel["pipelines"][o["name"]] = {"workflow": wf_files[o["wf"]],
                                       "ingest_demand": o["ingest"]}
        od = {"name": o["name"], "start": o["start"],
              "duration": o["dur"], "instrument_demand": o["demand"],
              "data_product_rate": o["rate"]}
        tel["observations"].append(od)
    res = {}
    for mid, (cpu, bw) in zip(machine_ids(cfg), cfg["machines"]):
        res[mid] = {"flops": cpu, "compute_bandwidth": bw}
    out = {"instrument": {"telescope": tel},
           "cluster": {"header": {"time": "false"},
                       "system": {"resources": res,
                                  "system_bandwidth": cfg.get("sysbw", 1)}},
           "buffer": {"hot": {"capacity": cfg["hot"][0],
                              "max_ingest_rate": cfg["hot"][1]},
                      "cold": {"capacity": cfg["cold"][0],
                               "max_data_rate": cfg["cold"][1]}}}
    ts = cfg.get("timestep", "seconds")
    if ts is not None:
        out["timestep"] = ts
    return out


_written = set()


def _write_once(name, obj):
    path = os.path.join(scratch_dir(), name)
    if path not in _written or not os.path.exists(path):
        tmp = path + ".tmp%d" % os.getpid()
        with open(tmp, "w") as f:
            json.dump(obj, f)
        os.replace(tmp, path)
        _written.add(path)
    return path


def materialise(case):
    """Write workflow + config files for ``case``; return the config path."""
    wf_files = {}
    if case.get("fixed_paths"):
        # the files of this case live under FIXED names that are rewritten
        # for every simulation (a user editing a workflow file and running
        # again in the same session): what topsim remembers about a path
        # must not outlive the file's content
        for key, wf in case["wfs"].items():
            name = "wf_fixed_%s.json" % key
            with open(os.path.join(scratch_dir(), name), "w") as f:
                json.dump(workflow_json(wf), f)
            wf_files[key] = name
        cj = config_json(case["cfg"], wf_files)
        path = os.path.join(scratch_dir(), "cfg_fixed.json")
        with open(path, "w") as f:
            json.dump(cj, f)
        return path
    for key, wf in case["wfs"].items():
        name = "wf_%s.json" % _digest(wf)
        _write_once(name, workflow_json(wf))
        wf_files[key] = name
    cj = config_json(case["cfg"], wf_files)
    name = "cfg_%s.json" % _digest(cj)
    return _write_once(name, cj)


# --------------------------------------------------------------------------
# DAG catalogue and helpers
# --------------------------------------------------------------------------

def dag(shape, comps=None, vols=None, data=None, ids=None):
    """Catalogue DAG ``shape`` with per-node compute ``comps`` (list or int),
    per-edge volume ``vols`` (list or int) and optional per-node task_data."""
    shapes = {
        "single": (1, []),
        "indep2": (2, []),
        "indep3": (3, []),
        "chain2": (2, [(0, 1)]),
        "chain3": (3, [(0, 1), (1, 2)]),
        "fork": (3, [(0, 1), (0, 2)]),
        "fork3": (4, [(0, 1), (0, 2), (0, 3)]),
        "join": (3, [(0, 2), (1, 2)]),
        "diamond": (4, [(0, 1), (0, 2), (1, 3), (2, 3)]),
        "bfly": (4, [(0, 2), (0, 3), (1, 2), (1, 3)]),
        "bfly3": (5, [(0, 2), (0, 3), (0, 4), (1, 2), (1, 3), (1, 4)]),
        "wjoin": (4, [(0, 3), (1, 3), (2, 3)]),
        "tri": (3, [(0, 1), (1, 2), (0, 2)]),
        "diamond-skip": (4, [(0, 1), (0, 2), (1, 3), (2, 3), (0, 3)]),
        "chains22": (4, [(0, 1), (2, 3)]),
        "chain2+1": (3, [(0, 1)]),
    }
    n, edges = shapes[shape]
    if comps is None:
        comps = 1
    if isinstance(comps, int):
        comps = [comps] * n
    if vols is None:
        vols = 0
    if isinstance(vols, (int, float)):
        vols = [vols] * len(edges)
    nodes = []
    for i in range(n):
        d = None if data is None else (
            data if isinstance(data, (int, float)) else data[i])
        nodes.append([i, comps[i], d])
    wf = {"nodes": nodes,
          "edges": [[u, v, vols[k]] for k, (u, v) in enumerate(edges)]}
    if ids is not None:
        # node ids that are neither contiguous nor in topological order
        wf = {"nodes": [[ids[x[0]]] + x[1:] for x in nodes],
              "edges": [[ids[u], ids[v], vol] for u, v, vol in wf["edges"]]}
    return wf


def wf_preds(wf):
    p = {n[0]: [] for n in wf["nodes"]}
    for u, v, _ in wf["edges"]:
        p[v].append(u)
    return p


def wf_succs(wf):
    s = {n[0]: [] for n in wf["nodes"]}
    for u, v, _ in wf["edges"]:
        s[u].append(v)
    return s


def topo_order(wf):
    preds = wf_preds(wf)
    done, order = set(), []
    nodes = [n[0] for n in wf["nodes"]]
    while len(order) < len(nodes):
        progressed = False
        for n in nodes:
            if n not in done and all(p in done for p in preds[n]):
                done.add(n)
                order.append(n)
                progressed = True
        if not progressed:
            raise ValueError("cycle")
    return order


def unit_factor(ts):
    if ts == "minutes":
        return 60
    if ts == "hours":
        return 3600
    if isinstance(ts, int) and not isinstance(ts, bool):
        return ts
    return 1


# --------------------------------------------------------------------------
# Feasibility predicate F (DESIGN.md 3.4) and the serial bound B of C05
# --------------------------------------------------------------------------

def feasible(case):
    cfg = case["cfg"]
    M = len(cfg["machines"])
    names = [o["name"] for o in cfg["obs"]]
    if len(set(names)) != len(names):
        return False
    f = unit_factor(cfg.get("timestep", "seconds"))
    for o in cfg["obs"]:
        # durations must be whole timesteps; a planned start may lie off the
        # timestep grid (the repository's own custom-timestep config does)
        if o["dur"] % f:
            return False
        dur = o["dur"] // f
        rate = o["rate"] * f
        if dur < 1 or o["start"] < 0:
            return False
        if o["demand"] > cfg["arrays"] or o["demand"] < 0:
            return False
        if o["ingest"] > cfg["max_ingest"] or o["ingest"] > M \
                or o["ingest"] < 1:
            return False
        if rate <= 0 or rate > cfg["hot"][1] * f:
            return False
        size = rate * dur
        if not size < cfg["hot"][0]:
            return False
        if size > cfg["cold"][0]:
            return False
    alg = case.get("alg", {})
    if alg.get("kind") in ("batch", "advbatch"):
        p = alg.get("p", 1)
        mn = alg.get("min", 1)
        split = alg.get("split")
        if mn < 1 or p < 1:
            return False
        if split:
            for o in cfg["obs"]:
                lo, hi = split[o["name"]]
                if lo > M or hi < lo or lo < mn:
                    return False
        else:
            if M // p < mn:
                return False
    return True


def nominal_runtime(comp, data, cpu, bw):
    return max(1, max(int(comp / cpu), int((data or 0) / bw)))


def serial_bound(case, extra_delay=0):
    """Serial bound B of the C05 statement (per-step latency constant 4)."""
    cfg = case["cfg"]
    f = unit_factor(cfg.get("timestep", "seconds"))
    obs = cfg["obs"]
    min_cpu = min(m[0] for m in cfg["machines"]) * f
    min_bw = min(m[1] for m in cfg["machines"]) * f
    slow_rate = min(cfg["hot"][1], cfg["cold"][1]) * f
    b = max(o["start"] for o in obs) / f
    ntasks = 0
    for o in obs:
        dur = o["dur"] / f
        size = o["rate"] * f * dur
        b += dur + 2 * math.ceil(size / slow_rate)
        wf = case["wfs"][o["wf"]]
        invol = {n[0]: 0 for n in wf["nodes"]}
        for u, v, vol in wf["edges"]:
            invol[v] = max(invol[v], vol)
        for n in wf["nodes"]:
            ntasks += 1
            data = n[2] if len(n) > 2 and n[2] is not None else 0
            b += max(1, max(int(n[1] / min_cpu), int(data / min_bw)))
            b += math.ceil(invol[n[0]] / min_bw)
    b += extra_delay
    b += 4 * (3 * len(obs) + ntasks)
    return int(math.ceil(b))
