"""Violations, known findings, replay files, evidence (DESIGN.md section 4)."""
import hashlib
import json
import os
import sys
import time

VERIF = os.path.dirname(os.path.dirname(os.path.abspath(__file__)))
KNOWN = os.path.join(VERIF, "known_findings.json")
EVIDENCE_DIR = os.environ.get("VERIF_EVIDENCE_DIR") or os.path.join(VERIF, "evidence")
REPLAY_DIR = os.environ.get("VERIF_REPLAY_DIR") or os.path.join(VERIF, "replays")
SCHEMA = "/root/.vp/EVIDENCE.schema.json"


def load_known():
    try:
        with open(KNOWN) as f:
            return json.load(f)
    except FileNotFoundError:
        return {"open": [], "fixed": []}


def _jsonable(x):
    if isinstance(x, dict):
        return {str(k): _jsonable(v) for k, v in x.items()}
    if isinstance(x, (list, tuple, set, frozenset)):
        return [_jsonable(v) for v in x]
    if isinstance(x, (str, int, float, bool)) or x is None:
        return x
    return repr(x)


class Reporter:
    def __init__(self, pid, tier, seed):
        self.pid = pid
        self.tier = tier
        self.seed = seed
        self.t0 = time.time()
        self.evaluations = 0
        self.transitions = 0
        self.states = set()
        self.nontrivial = set()
        self.outcomes = set()
        self.samples = []
        self.scopes = {}
        self.caps = []
        self.exhaustive = True
        self.traces_validated = 0
        self.violations = []         # dicts
        self.rule = ""
        self.assumptions = []
        self.extra = {}
        self.budgets = {}
        self.harness_errors = []
        self.confirm_errors = []
        self.soft_errors = []        # replay divergences met while exploring
        self.confirm = None          # callable(payload) -> [violation dicts]

    # ---- accumulation ----------------------------------------------------
    def scope(self, name):
        return self.scopes.setdefault(name, {"cases": 0, "executions": 0})

    def add_sample(self, s, limit=4):
        if len(self.samples) < limit:
            self.samples.append(_jsonable(s))

    def violation(self, clause, cause, payload, detail=None, scope=None):
        self.violations.append({"clause": clause, "cause": cause,
                                "payload": payload, "detail": detail,
                                "scope": scope})

    def cap(self, what):
        self.exhaustive = False
        self.caps.append(what)

    # ---- finish ----------------------------------------------------------
    def _sig(self, v):
        return (v["clause"], v["cause"])

    def _reproduces(self, payload, sig):
        """Re-execute the witness twice, each time in a FRESH forked child of
        this (pristine) process -- the same situation as `check.py replay`
        in a new interpreter; earlier confirmations cannot leave state
        behind that would mask or fake a later one."""
        for rep in range(2):
            if not self._confirm_in_child(payload, sig):
                return False
        return True

    def _confirm_in_child(self, payload, sig):
        import multiprocessing as mp
        ctx = mp.get_context("fork")
        rd, wr = ctx.Pipe(False)

        def child():
            try:
                if isinstance(payload, dict) and payload.get("prelude"):
                    from . import run as runmod
                    runmod.prelude(payload)
                again = self.confirm(payload)
                wr.send(("ok", sig in {(a["clause"], a["cause"])
                                       for a in again}))
            except BaseException as e:       # noqa
                import traceback
                wr.send(("err", traceback.format_exc()[-1500:]))
            finally:
                wr.close()
        proc = ctx.Process(target=child)
        proc.start()
        wr.close()
        try:
            kind, val = rd.recv()
        except EOFError:
            kind, val = "err", "confirmation child died"
        proc.join()
        if kind == "err":
            # e.g. the recorded prefix does not replay in a fresh process:
            # this witness is not a replayable one
            self.confirm_errors.append(val.strip().splitlines()[-1][:300])
            return False
        return bool(val)

    def finish(self):
        known = load_known()
        open_k = {(k["clause"], k["cause"]): k for k in known.get("open", [])
                  if k["property"] == self.pid}
        groups = {}
        for v in self.violations:
            groups.setdefault(self._sig(v), []).append(v)
        lines = []
        n_viol = 0
        unconfirmed = []
        seen_known = []
        os.makedirs(os.path.join(REPLAY_DIR, self.pid), exist_ok=True)
        for old in os.listdir(os.path.join(REPLAY_DIR, self.pid)):
            if old.endswith(".json"):
                os.remove(os.path.join(REPLAY_DIR, self.pid, old))
        for sig in sorted(groups, key=lambda s: (str(s[0]), str(s[1]))):
            vs = groups[sig]
            ncases = len(vs)
            if sig in open_k:
                k = open_k[sig]
                seen_known.append({"clause": sig[0], "cause": sig[1],
                                   "count": len(vs)})
                lines.append("KNOWN-FINDING: property=%s %s [%s / %s] "
                             "(%d cases this run)" % (
                                 self.pid, k["what"], sig[0], sig[1],
                                 len(vs)))
                continue
            # unknown signature: confirm, write replay(s), report.
            # Several witnesses are tried (those that carry their own
            # history first): a violation caused by state left behind by an
            # UNRELATED earlier execution of the same worker process does
            # not replay from its own payload, a witness that names its
            # history does.
            if self.confirm is not None:
                def _hist(v):
                    pl = v["payload"]
                    if not isinstance(pl, dict):
                        return 1
                    c = pl.get("case") if isinstance(pl.get("case"), dict) \
                        else pl
                    return 0 if (c.get("before") or c.get("history")
                                 or pl.get("history")) else 1
                cands = sorted(vs, key=_hist)[:12]
                good = None
                for v in cands:
                    if self._reproduces(v["payload"], sig):
                        good = v
                        break
                    if isinstance(v["payload"], dict) \
                            and "case" in v["payload"]:
                        # State carried from an earlier run of the same case
                        # in the same process (module/class level state in
                        # topsim)?  Deterministic and replayable.
                        pre = dict(v["payload"], prelude=1)
                        if self._reproduces(pre, sig):
                            v["payload"] = pre
                            v["detail"] = {"only_after_an_earlier_run_in_the_"
                                           "same_process": True,
                                           "detail": v["detail"]}
                            good = v
                            break
                if good is None:
                    # no VIOLATION line without a replayable witness
                    unconfirmed.append(
                        "violation %s/%s did not reproduce on "
                        "re-execution (%d witnesses tried, neither alone nor "
                        "after a prelude run%s)"
                        % (sig[0], sig[1], len(cands),
                           ("; last error: " + self.confirm_errors[-1])
                           if self.confirm_errors else ""))
                    continue
                else:
                    vs = [good] + [v for v in vs if v is not good
                                   and _hist(v) == 0][:2]
            for n, v in enumerate(vs[:3]):
                h = hashlib.sha1(json.dumps(
                    [sig, _jsonable(v["payload"])],
                    sort_keys=True).encode()).hexdigest()[:10]
                name = "%s-%s-%s.json" % (
                    str(sig[0]).replace("/", "_"),
                    "".join(c if c.isalnum() or c in "-_." else "_"
                            for c in str(sig[1]))[:60], h)
                path = os.path.join(REPLAY_DIR, self.pid, name)
                with open(path, "w") as f:
                    json.dump({"property": self.pid, "clause": sig[0],
                               "cause": sig[1],
                               "detail": _jsonable(v["detail"]),
                               "scope": v["scope"],
                               "payload": _jsonable(v["payload"])}, f,
                              indent=1)
                if n == 0:
                    lines.append("VIOLATION property=%s replay=%s" % (
                        self.pid, path))
                    lines.append("  clause=%s cause=%s cases=%d detail=%s" % (
                        sig[0], sig[1], ncases,
                        json.dumps(_jsonable(v["detail"]))[:300]))
            n_viol += 1
        if self.soft_errors:
            msgs = ["%d execution(s) did not replay their prefix, e.g. %s"
                    % (len(self.soft_errors), self.soft_errors[0])]
            if n_viol:
                lines.append("NOTE executions are not independent of what "
                             "the process ran before: " + msgs[0])
            else:
                self.harness_errors.extend(msgs)
        if unconfirmed:
            if n_viol:
                # the tree is already shown to violate the property by
                # replayable witnesses; these further signatures depend on
                # what the worker process executed before (state that
                # outlives a simulation) and are listed for information
                for u in unconfirmed:
                    lines.append("NOTE order-dependent, not replayable on "
                                 "its own: " + u)
            else:
                self.harness_errors.extend(
                    u + ": uncaptured nondeterminism" for u in unconfirmed)
        wall = time.time() - self.t0
        states = len(self.states) if isinstance(self.states, set) \
            else int(self.states)
        cov = {
            "states": max(states, 0),
            "transitions": int(self.transitions),
            "traces_validated_against_impl": int(self.traces_validated),
            "samples": self.samples,
            "evaluations": int(self.evaluations),
            "distinct_nontrivial": len(self.nontrivial)
            if isinstance(self.nontrivial, set) else int(self.nontrivial),
            "rule": self.rule,
            "exhaustive": bool(self.exhaustive),
            "distinct_outcomes": len(self.outcomes),
            "scopes": self.scopes,
            "deviation_budgets": self.budgets,
            "caps_hit": self.caps,
            "known_findings_observed": seen_known,
            "violation_signatures": [
                {"clause": s[0], "cause": s[1], "cases": len(groups[s])}
                for s in groups if s not in open_k],
        }
        cov.update(self.extra)
        ev = {"property_id": self.pid, "tier": self.tier,
              "seed": int(self.seed), "level": "model_checking",
              "coverage": cov, "assumptions": self.assumptions,
              "wall_s": round(wall, 2), "violations": n_viol}
        os.makedirs(EVIDENCE_DIR, exist_ok=True)
        path = os.path.join(EVIDENCE_DIR, "%s.json" % self.pid)
        with open(path + ".tmp", "w") as f:
            json.dump(ev, f, indent=1)
        os.replace(path + ".tmp", path)
        # schema validation with the tooling venv's jsonschema (not in /venv)
        if os.path.exists(SCHEMA):
            import shutil
            import subprocess
            vt = shutil.which("python3-vt")
            if vt:
                pr = subprocess.run(
                    [vt, "-c",
                     "import json,sys,jsonschema;"
                     "jsonschema.validate(json.load(open(sys.argv[1])),"
                     "json.load(open(sys.argv[2])))", path, SCHEMA],
                    capture_output=True, text=True)
                if pr.returncode != 0:
                    self.harness_errors.append(
                        "evidence does not validate: " + pr.stderr[-400:])
        for ln in lines:
            print(ln)
        print("%s %s: executions=%d states=%d transitions=%d nontrivial=%d "
              "outcomes=%d exhaustive=%s violations=%d known=%d wall=%.1fs"
              % (self.pid, self.tier, self.evaluations, states,
                 self.transitions, cov["distinct_nontrivial"],
                 len(self.outcomes), self.exhaustive, n_viol,
                 len(seen_known), wall))
        if self.harness_errors:
            for h in self.harness_errors:
                print("HARNESS-ERROR: %s" % h)
            return 2
        if cov["distinct_nontrivial"] == 0 or cov["evaluations"] == 0:
            print("HARNESS-ERROR: vacuous exploration (no non-trivial case)")
            return 2
        return 1 if n_viol else 0
