"""Scope families shared by the trajectory (E1) checks."""
import itertools

from .. import scopes, world
from ..scopes import mkobs, mkcfg, mkcase, dag, CLUSTERS


def rotate(items, seed):
    items = list(items)
    if not items or not seed:
        return items
    k = seed % len(items)
    return items[k:] + items[:k]


def keep(i, k):
    """deterministic, decorrelated 1-in-k selection of index i (a plain
    stride over a list that alternates categories can drop a whole category)"""
    if k <= 1:
        return True
    return (((i * 2654435761) & 0xffffffff) >> 11) % k == 0


def thin(items, k):
    items = list(items)
    if k <= 1:
        return items
    return [x for i, x in enumerate(items) if keep(i, k)]


def add_algs(cases, algs_fn, feasible_only=True):
    out = []
    for scope, case in cases:
        for alg in algs_fn(case):
            c = dict(case)
            c["alg"] = alg
            if not feasible_only or world.feasible(c):
                out.append((scope, c))
    return out


# -- S-contend: two (three) observations whose ingests and workflows compete

def contend(level="quick", Ms=(1, 2, 3)):
    starts = (0, 1, 2, 3, 4) if level != "tiny" else (0, 2)
    durs = ((1, 1), (2, 1), (3, 2)) if level == "thorough" else ((1, 1),
                                                                  (2, 1))
    dags_a = [("indep2", dag("indep2", [2, 1])),
              ("fork", dag("fork", [1, 2, 1], [2, 0])),
              ("diamond", dag("diamond", [1, 2, 3, 1], [1, 2, 0, 3]))]
    if level == "thorough":
        dags_a.append(("chain3", dag("chain3", [3, 0, 4], [3, 1])))
    wb = dag("chain2", [2, 1], [2])
    for M in Ms:
        for machines in CLUSTERS[M]:
            for s2 in starts:
                for d1, d2 in durs:
                    for ing, mi in ((1, 1), (1, 2), (2, 2)):
                        if ing > M:
                            continue
                        for la, wa in dags_a:
                            obs = [mkobs("a", 0, d1, 1, 1, ing, "wa"),
                                   mkobs("b", s2, d2, 2, 1, ing, "wb")]
                            cfg = mkcfg(machines, obs, (100, 10), (100, 10),
                                        2, mi)
                            yield "S-contend", mkcase(cfg, {"wa": wa,
                                                            "wb": wb})


def zero_comp_scope(level="quick"):
    """Workflows with structural nodes (no compute, no data demand) whose
    allocation coincides with another workflow's allocations."""
    pairs = [(dag("chain3", [1, 0, 1], [0, 0]), dag("chain2", [0, 1], [0])),
             (dag("fork", [0, 1, 1], 0), dag("chain3", [1, 0, 0], [0, 0])),
             (dag("diamond", [0, 1, 1, 0], 0), dag("single", [0]))]
    if level == "thorough":
        pairs.append((dag("join", [0, 0, 1], 0), dag("fork", [1, 0, 0], 0)))
    for M in (2, 3):
        for machines in CLUSTERS[M][:(2 if level == "thorough" else 1)]:
            for s2 in (0, 1, 2, 3, 4):
                for wa, wb in pairs:
                    obs = [mkobs("a", 0, 1, 1, 1, 1, "wa"),
                           mkobs("b", s2, 1, 1, 1, 1, "wb")]
                    cfg = mkcfg(machines, obs, (100, 10), (100, 10), 2, 2)
                    yield "S-zero-comp", mkcase(cfg, {"wa": wa, "wb": wb})


def contend3(level="quick"):
    """three observations, sub-array demands"""
    wa = dag("fork", [1, 2, 1], [2, 0])
    wb = dag("chain2", [2, 1], [2])
    wc = dag("single", [3])
    for M in (2, 3):
        for machines in CLUSTERS[M][:2]:
            for s2, s3 in ((0, 0), (0, 1), (1, 2), (2, 2), (1, 4)):
                for mi in (1, 2):
                    obs = [mkobs("a", 0, 2, 1, 1, 1, "wa"),
                           mkobs("b", s2, 1, 2, 1, 1, "wb"),
                           mkobs("c", s3, 1, 1, 1, 1, "wc")]
                    for arrays in (2, 3):
                        cfg = mkcfg(machines, obs, (100, 10), (100, 10),
                                    arrays, mi)
                        yield "S-contend3", mkcase(
                            cfg, {"wa": wa, "wb": wb, "wc": wc})


# -- S-buffer: buffer sizes on both sides of the tiering threshold

def buffer_scope(level="quick"):
    wf_short = dag("single", [1])
    wf_long = dag("chain3", [2, 3, 2], [0, 0])
    hots = [(4, 3), (5, 3), (6, 3), (7, 3), (10, 3), (10, 1)]
    colds = [(6, 2), (10, 3), (3, 1)]
    if level == "thorough":
        hots += [(5, 2), (8, 2), (12, 4)]
        colds += [(4, 4), (100, 10)]
    sizes = [((1, 2), (1, 2)), ((2, 2), (1, 2)), ((1, 3), (2, 1)),
             ((2, 1), (3, 1)), ((3, 1), (2, 2)),   # (dur, rate) per obs
             # both still ingesting when their sum exceeds the capacity
             ((3, 1), (3, 1)), ((2, 1), (2, 2))]
    starts = (0, 1, 2, 3, 5) if level != "thorough" else (0, 1, 2, 3, 4, 5, 8)
    for M in (1, 2):
        machines = CLUSTERS[M][0]
        for hot in hots:
            for cold in colds:
                for (d1, r1), (d2, r2) in sizes:
                    for s2 in starts:
                        for wl in ("short", "long"):
                            wa = wf_long if wl == "long" else wf_short
                            obs = [mkobs("a", 0, d1, r1, 1, 1, "wa"),
                                   mkobs("b", s2, d2, r2, 1, 1, "wb")]
                            cfg = mkcfg(machines, obs, hot, cold, 2, 2)
                            yield "S-buffer", mkcase(
                                cfg, {"wa": wa, "wb": wf_short})


# -- S-plan: observation plans

def plan_scope(level="quick"):
    wa = dag("chain2", [2, 1], [1])
    wb = dag("indep2", [1, 2])
    wc = dag("single", [2])
    plans2 = []
    for s2 in (0, 1, 2, 3, 4, 6):
        for d1 in (1, 2, 3, 4):
            for d2 in (1, 3):
                plans2.append([("a", 0, d1), ("b", s2, d2)])
    for s1 in (1, 3):
        plans2.append([("a", s1, 2), ("b", s1, 1)])
        plans2.append([("a", s1, 1), ("b", s1 + 1, 2)])
    # plan listed out of start order (the telescope walks the list in order)
    for s2, d1, d2 in ((1, 2, 1), (2, 1, 1), (3, 3, 3), (0, 2, 2), (4, 4, 1)):
        plans2.append([("b", s2, d2), ("a", 0, d1)])
    plans3 = [[("c", 2, 1), ("a", 0, 2), ("b", 1, 2)],
              [("a", 0, 1), ("b", 0, 1), ("c", 0, 1)],
              [("a", 0, 2), ("b", 1, 2), ("c", 2, 1)],
              [("a", 0, 1), ("b", 1, 1), ("c", 2, 1)],
              [("a", 1, 3), ("b", 2, 1), ("c", 6, 2)],
              [("a", 0, 3), ("b", 0, 1), ("c", 1, 1)]]
    if level == "thorough":
        plans3 += [[("a", 0, 4), ("b", 2, 2), ("c", 3, 3)],
                   [("a", 2, 1), ("b", 2, 2), ("c", 2, 3)],
                   [("a", 0, 2), ("b", 2, 2), ("c", 4, 2)]]
    for M in (1, 2, 3):
        for machines in CLUSTERS[M][:2]:
            for ing, mi in ((1, 1), (1, 2), (2, 2)):
                if ing > M:
                    continue
                for demands, arrays in (((1, 1, 1), 2), ((2, 1, 1), 2),
                                        ((1, 1, 1), 3)):
                    for plan in plans2 + plans3:
                        if len(plan) == 2 and arrays == 3:
                            continue
                        obs = []
                        for (n, s, d), dem in zip(plan, demands):
                            obs.append(mkobs(n, s, d, 1, dem, ing, "w" + n))
                        cfg = mkcfg(machines, obs, (100, 10), (100, 10),
                                    arrays, mi)
                        yield ("S-plan%d" % len(plan)), mkcase(
                            cfg, {"wa": wa, "wb": wb, "wc": wc})


# -- S-batch: reservations competing with each other and with ingest

def batch_scope(level="quick"):
    dags = [("indep2", dag("indep2", [2, 1])),
            ("fork", dag("fork", [1, 2, 1], [2, 0])),
            ("diamond", dag("diamond", [1, 2, 3, 1], [1, 2, 0, 3])),
            ("chain2", dag("chain2", [2, 2], [1]))]
    wb = dag("fork", [2, 1, 1], [1, 1])
    wc = dag("single", [2])
    Ms = (2, 3, 4) if level == "thorough" else (2, 3)
    for M in Ms:
        for machines in CLUSTERS[M][:2]:
            for s2 in (0, 1, 2, 3):
                for d1, d2 in ((1, 1), (2, 1), (1, 3)):
                    for la, wa in dags:
                        obs = [mkobs("a", 0, d1, 1, 1, 1, "wa"),
                               mkobs("b", s2, d2, 1, 1, 1, "wb")]
                        cfg = mkcfg(machines, obs, (100, 10), (100, 10), 2,
                                    2)
                        yield "S-batch2", mkcase(cfg, {"wa": wa, "wb": wb})
            for s2, s3 in ((0, 0), (1, 2), (0, 3), (2, 4)):
                for la, wa in dags[:3]:
                    obs = [mkobs("a", 0, 1, 1, 1, 1, "wa"),
                           mkobs("b", s2, 1, 1, 1, 1, "wb"),
                           mkobs("c", s3, 2, 1, 1, 1, "wc")]
                    cfg = mkcfg(machines, obs, (100, 10), (100, 10), 3, 2)
                    yield "S-batch3", mkcase(cfg, {"wa": wa, "wb": wb,
                                                   "wc": wc})


def batch_seq_scope(level="quick"):
    """Reservations taken and released one after the other: a's workflow has
    finished (its reservation released) when b's workflow runs, and c's
    ingest (1-2 machines) starts while b's workflow is running."""
    wa = dag("chain2", [1, 1], [0])
    wbs = [dag("chain2", [3, 3], [0]), dag("indep2", [4, 3])]
    wc = dag("single", [1])
    Ms = (2, 3, 4) if level == "thorough" else (2, 3)
    for M in Ms:
        machines = CLUSTERS[M][0]
        for wb in (wbs if level == "thorough" else wbs[:1]):
            for sb in (2, 3, 4, 5):
                for gap in (2, 3, 4, 5):
                    for ing_a, ing_c in ((1, 1), (1, 2), (2, 2)):
                        if ing_c > M:
                            continue
                        obs = [mkobs("a", 0, 1, 1, 1, ing_a, "wa"),
                               mkobs("b", sb, 1, 1, 1, 1, "wb"),
                               mkobs("c", sb + gap, 2, 1, 1, ing_c, "wc")]
                        cfg = mkcfg(machines, obs, (100, 10), (100, 10), 3,
                                    2)
                        yield "S-batch-seq", mkcase(
                            cfg, {"wa": wa, "wb": wb, "wc": wc})


def batch_seq_algs(case, level="quick"):
    M = len(case["cfg"]["machines"])
    out = [{"kind": "batch", "p": 1, "min": 1}]
    if M >= 2:
        out.append({"kind": "batch", "p": 2, "min": 1})
        out.append({"kind": "batch", "p": 1, "min": 2})
    return out


def batch_algs(case, level="quick"):
    M = len(case["cfg"]["machines"])
    names = [o["name"] for o in case["cfg"]["obs"]]
    out = []
    ps = (1, 2, 3) if level == "thorough" else (1, 2)
    for p in ps:
        for mn in (1, 2):
            if M // p >= mn:
                out.append({"kind": "batch", "p": p, "min": mn})
    splits = [(1, 1), (1, 2), (2, 2)]
    if level == "thorough":
        combos = itertools.product(splits, repeat=len(names))
    else:
        combos = [tuple(s for _ in names) for s in splits] + \
            [tuple(splits[(i + 1) % 3] for i, _ in enumerate(names))]
    for combo in combos:
        sp = {n: list(c) for n, c in zip(names, combo)}
        mn = min(c[0] for c in combo)
        out.append({"kind": "batch", "p": 2, "min": mn, "split": sp})
    return out


def static_algs(case, kinds=("dynamic", "greedy"), mode="all", limit=None):
    M = len(case["cfg"]["machines"])
    asg = scopes.assignments(case, limit)
    if mode == "diag":
        asg = [a for a in asg if scopes._is_simple(a, M)]
    out = []
    for a in asg:
        for k in kinds:
            out.append({"kind": k, "assign": a})
    return out


def shipped(case, level="quick", static_mode="diag", greedy=True):
    M = len(case["cfg"]["machines"])
    out = [{"kind": "queue"}]
    for p in (1, 2):
        for mn in (1, 2):
            if M // p >= mn:
                out.append({"kind": "batch", "p": p, "min": mn})
    kinds = ("dynamic", "greedy") if greedy else ("dynamic",)
    out += static_algs(case, kinds, static_mode)
    return out


# -- S-wide: last wave as wide as the cluster/reservation, every task with a
#    predecessor on another machine, fractional transfer times (vol/bw = .5)

def wide_scope(level="quick"):
    dags = [("bfly", dag("bfly", [1, 1, 1, 1], [1, 1, 1, 1])),
            ("bfly-v3", dag("bfly", [1, 1, 1, 1], 3)),
            ("bfly-c23", dag("bfly", [2, 2, 3, 3], [1, 3, 3, 1])),
            ("bfly-mix", dag("bfly", [1, 2, 1, 1], [3, 1, 1, 3])),
            # transfers of two and more steps: a task sits on its machine in
            # the transfer wait (SCHEDULED, not yet RUNNING) across timesteps
            ("bfly-v5", dag("bfly", [1, 1, 1, 1], 5)),
            ("bfly-v4-c2", dag("bfly", [1, 1, 2, 2], [4, 6, 6, 4])),
            ("fork", dag("fork", [1, 1, 1], [1, 1])),
            ("fork-v3", dag("fork", [2, 1, 1], [3, 3])),
            ("fork-v5", dag("fork", [1, 2, 2], [5, 3]))]
    clusters = [[[1, 2], [1, 2]], [[2, 2], [1, 2]]]
    if level == "thorough":
        dags += [("bfly3", dag("bfly3", [1, 1, 1, 1, 1], 1)),
                 ("bfly3-v3", dag("bfly3", [1, 1, 2, 2, 2], 3)),
                 ("wjoin", dag("wjoin", [1, 2, 1, 1], [1, 3, 5]))]
        for cr in (1, 2, 3):
            for cl in (1, 2, 3):
                for vs in itertools.product((1, 3), repeat=4):
                    dags.append(("bfly-full", dag("bfly", [cr, cr, cl, cl],
                                                  list(vs))))
        clusters += [[[1, 2], [1, 2], [1, 2]], [[1, 4], [2, 4]]]
    wb = dag("chain2", [1, 1], [1])
    for machines in clusters:
        for label, wa in dags:
            for second in (None, 1, 3):
                obs = [mkobs("a", 0, 1, 1, 1, 1, "wa")]
                wfs = {"wa": wa}
                if second is not None:
                    obs.append(mkobs("b", second, 1, 1, 1, 1, "wb"))
                    wfs["wb"] = wb
                cfg = mkcfg(machines, obs, (100, 10), (100, 10), 2, 2)
                yield "S-wide", mkcase(cfg, wfs)


def wide_algs(case, level="quick"):
    M = len(case["cfg"]["machines"])
    out = [{"kind": "queue"}]
    for p in (1, 2):
        for mn in (1, 2):
            if M // p >= mn:
                out.append({"kind": "batch", "p": p, "min": mn})
    return out


# -- S-ids: node ids that are not in topological order (a sink whose id sorts
#    before its predecessors), scarce machines

def ids_scope(level="quick"):
    dags = [("join-rev", dag("join", [1, 1, 1], [0, 0], ids=[1, 2, 0])),
            ("join-rev2", dag("join", [2, 1, 1], [1, 1], ids=[7, 12, 10])),
            ("wjoin-rev", dag("wjoin", [1, 1, 1, 1], 0, ids=[5, 3, 9, 1])),
            ("diamond-rev", dag("diamond", [1, 1, 2, 1], [0, 1, 0, 1],
                                ids=[2, 3, 1, 0])),
            ("chain3-rev", dag("chain3", [1, 1, 1], [0, 0], ids=[2, 1, 0])),
            ("fork-rev", dag("fork", [1, 1, 2], [1, 0], ids=[2, 0, 1]))]
    if level == "thorough":
        dags += [("bfly-rev", dag("bfly", [1, 1, 1, 1], 1, ids=[3, 2, 1, 0])),
                 ("wjoin-rev2", dag("wjoin", [1, 2, 1, 1], [1, 0, 2],
                                    ids=[11, 2, 10, 1]))]
    wb = dag("join", [1, 1, 1], [0, 0], ids=[2, 1, 0])
    for M in (1, 2):
        for machines in CLUSTERS[M][:2]:
            for label, wa in dags:
                for second in (None, 0, 2):
                    obs = [mkobs("a", 0, 1, 1, 1, 1, "wa")]
                    wfs = {"wa": wa}
                    if second is not None:
                        if M == 1 and second == 0:
                            continue
                        obs.append(mkobs("b", second, 1, 1, 1, 1, "wb"))
                        wfs["wb"] = wb
                    cfg = mkcfg(machines, obs, (100, 10), (100, 10), 2, 2)
                    yield "S-ids", mkcase(cfg, wfs)
                    if M == 2 and second != 0:
                        # machine ids numbered per category as well
                        yield "S-ids", mkcase(
                            dict(cfg, mids=world.percat_ids(M)), wfs)


# -- S-buffer3: three observations around the buffer capacities (thorough)

def buffer3_scope(level="thorough"):
    wf_short = dag("single", [1])
    wf_long = dag("chain2", [3, 2], [0])
    hots = [(5, 3), (6, 3), (7, 3), (10, 3)]
    colds = [(6, 2), (10, 3)]
    sizes = [((1, 2), (1, 2), (2, 1)), ((2, 1), (2, 1), (2, 1)),
             ((3, 1), (1, 2), (2, 2)), ((1, 3), (2, 1), (1, 1))]
    starts = [(0, 0), (0, 1), (1, 2), (1, 4), (2, 2), (3, 6)]
    for M in (2, 3):
        machines = CLUSTERS[M][0]
        for hot in hots:
            for cold in colds:
                for sz in sizes:
                    for s2, s3 in starts:
                        for wl in ("short", "long"):
                            wa = wf_long if wl == "long" else wf_short
                            obs = [mkobs("a", 0, sz[0][0], sz[0][1], 1, 1,
                                         "wa"),
                                   mkobs("b", s2, sz[1][0], sz[1][1], 1, 1,
                                         "wb"),
                                   mkobs("c", s3, sz[2][0], sz[2][1], 1, 1,
                                         "wc")]
                            cfg = mkcfg(machines, obs, hot, cold, 3, 3)
                            yield "S-buffer3", mkcase(
                                cfg, {"wa": wa, "wb": wf_short,
                                      "wc": wf_short})


def thorough_override(case, i=0):
    """Per-case deviation budgets for the thorough tier.  Two deviations of
    every kind on every case would be tens of millions of executions; the
    second deviation is spent where it costs least per case."""
    kind = case["alg"]["kind"]
    M = len(case["cfg"]["machines"])
    nobs = len(case["cfg"]["obs"])
    if kind.startswith("adv"):
        if keep(i, 5) and nobs <= 2:
            return {"adv": 2, "tie": 0, "delay": 0}
        return {"adv": 1, "tie": 1, "delay": 0}
    if kind in ("dynamic", "greedy"):
        return {"delay": 1, "tie": 1}
    if nobs >= 3:
        return {"delay": 1, "tie": 1}
    if M <= 2:
        return {"delay": 2, "tie": 1}
    return {"delay": 1, "tie": 2}


# -- S-park: one resident observation with a long workflow, two more that are
#    tiered out to cold storage while it runs and come back one after the
#    other (cold rate 1-2: moves take several steps and overlap)

def park_scope(level="quick"):
    wf_long = dag("chain3", [5, 5, 5], [0, 0])
    wf_short = dag("single", [1])
    colds = [(100, 1), (100, 2), (12, 1)]
    bs = [(5, 1), (2, 2)]                  # (dur, rate): sizes 5, 4
    cs = [(6, 1), (3, 2), (2, 3)]          # sizes 6
    if level == "thorough":
        bs += [(3, 1), (1, 3)]
        cs += [(5, 1), (4, 1)]
        colds += [(100, 3), (9, 2)]
    for cold in colds:
        for sb in (0, 1, 3):
            for sc in (1, 2, 4):
                for db, rb in bs:
                    for dc, rc in cs:
                        obs = [mkobs("a", 0, 2, 1, 1, 1, "wa"),
                               mkobs("b", sb, db, rb, 1, 1, "wb"),
                               mkobs("c", sc, dc, rc, 1, 1, "wc")]
                        cfg = mkcfg(CLUSTERS[3][0], obs, (10, 3), cold, 3, 3)
                        yield "S-park", mkcase(cfg, {"wa": wf_long,
                                                     "wb": wf_short,
                                                     "wc": wf_short})


def park2_scope(level="quick"):
    """Three overlapping observations on a hot buffer that holds all of them
    but is over its tiering threshold with any two: two observations are
    parked in cold storage at the same time and have to come back."""
    wf = dag("single", [1])
    durs = [(8, 8, 6), (4, 4, 3), (8, 6, 6), (4, 4, 4)]
    hots = [(18, 2, 1), (18, 10, 1), (9, 1, 2), (9, 3, 2)]
    if level == "thorough":
        durs += [(6, 8, 4), (8, 4, 8)]
        hots += [(12, 2, 1), (27, 3, 1)]
    for H, rate, k in hots:
        for crate in (1, 2, 10):
            for sb in (1, 2, 3):
                for sc in (3, 4, 6):
                    for da, db, dc in durs:
                        obs = [mkobs("a", 0, da // k, 1, 1, 1, "w"),
                               mkobs("b", sb, db // k, 1, 1, 1, "w"),
                               mkobs("c", sc, dc // k, 1, 1, 1, "w")]
                        cfg = mkcfg(CLUSTERS[4][0], obs, (H, rate),
                                    (60, crate), 3, 3)
                        yield "S-park2", mkcase(cfg, {"w": wf})


def offgrid_dense_scope(level="quick"):
    """every off-grid offset for unit 10, every 4th second for minutes;
    durations of 1 and 3 steps"""
    for unit, step in ((10, 1), ("minutes", 4)):
        f = world.unit_factor(unit)
        for s in range(1, 2 * f, step):
            for k in (1, 3):
                obs = [mkobs("a", s, k * f, 1, 1, 1, "wa"),
                       mkobs("b", s + (k + 2) * f, f, 1, 1, 1, "wa")]
                cfg = mkcfg(CLUSTERS[2][0], obs, (100 * f, 10),
                            (100 * f, 10), 2, 2, timestep=unit)
                yield "S-offgrid-dense", mkcase(
                    cfg, {"wa": dag("chain2", [f, f], [0])})


def zero_demand_scope(level="quick"):
    """legal but unusual demands: a pipeline that needs no ingest machine, an
    observation whose rate rounds to zero, both -- with durations of 2-3
    steps.  (An observation that needs no ARRAYS is not explored: DESIGN 9.)"""
    wa = dag("chain2", [2, 1], [0])
    wb = dag("single", [2])
    for M in (2, 3):
        machines = CLUSTERS[M][0]
        for s2 in (0, 2, 5):
            for kind in ("no-ingest", "no-data", "neither"):
                b = mkobs("b", s2, 3, 1, 1, 1, "wb")
                if kind in ("no-ingest", "neither"):
                    b["ingest"] = 0
                if kind in ("no-data", "neither"):
                    b["rate"] = 0.4
                obs = [mkobs("a", 0, 2, 1, 1, 1, "wa"), b]
                cfg = mkcfg(machines, obs, (100, 10), (100, 10), 2, 2)
                yield "S-zero-demand/%s" % kind, mkcase(
                    cfg, {"wa": wa, "wb": wb})


def park_algs(case, level="quick"):
    return [{"kind": "queue"}, {"kind": "batch", "p": 1, "min": 1}]


# -- S-offgrid: coarser timestep units with planned starts that are not whole
#    multiples of the unit (fractional est)

def offgrid_scope(level="quick"):
    wa = dag("chain2", [2, 1], [1])
    wb = dag("single", [2])
    units = [5, "minutes"] if level != "thorough" else [5, "minutes", 2, 7]
    for unit in units:
        f = world.unit_factor(unit)
        offs = sorted({1, f // 2, f - 1} - {0})
        for M in (1, 2):
            for s1 in [0] + offs + [f + o for o in offs[:2]]:
                for s2 in [f * 2 + o for o in [0] + offs[:2]]:
                    obs = [mkobs("a", s1, f * 2, 1, 1, 1, "wa"),
                           mkobs("b", s2, f, 1, 1, 1, "wb")]
                    cfg = mkcfg(CLUSTERS[M][0], obs, (100 * f, 10),
                                (100 * f, 10), 2, 2, timestep=unit)
                    yield "S-offgrid", mkcase(cfg, {"wa": wa, "wb": wb})
