"""C12 -- the per-timestep table reports the true state, one row per step."""
from .. import e1, engine, full, world, run as runmod
from . import common

RULE = ("E1/FULL: real Monitor; every run of S-plan/S-contend/S-batch/"
        "S-buffer subsets (overlapping observations whose ingests start and "
        "end at different instants) x shipped pairings; oracle: len(table) == "
        "instants simulated, row index contiguous, and row t equals the "
        "boundary snapshot of instant t (taken by the probe environment "
        "before the monitor runs) in all 11 state columns; non-trivial = two "
        "ingests overlapped or a reservation/tier move occurred")

COLS = ("available_resources", "ingest_resources", "running_tasks",
        "finished_tasks", "provisioned_observations", "hot_buffer",
        "cold_buffer", "stored", "observations_waiting",
        "observations_finished", "scheduler_observation_queue")


def cases(tier, seed):
    lvl = "thorough" if tier == "thorough" else "quick"
    plan = list(common.plan_scope(lvl))
    con = list(common.contend(lvl))
    bat = list(common.batch_scope(lvl))
    buf = list(common.buffer_scope(lvl))
    if tier != "thorough":
        plan, con, bat, buf = common.thin(plan, 12), common.thin(con, 16), common.thin(bat, 10), common.thin(buf, 40)
    else:
        plan, con, bat, buf = common.thin(plan, 2), common.thin(con, 3), common.thin(bat, 2), common.thin(buf, 5)
    out = common.add_algs(plan + con + buf,
                          lambda c: common.shipped(c, lvl, "diag", False))
    out += common.add_algs(bat, lambda c: common.batch_algs(c, lvl)[:4])
    # tier moves at non-integral rates: free space is fractional while a
    # move is in flight
    frac = []
    for sc, c in common.thin(list(common.park2_scope(lvl)),
                             27 if tier != "thorough" else 6):
        cfg = dict(c["cfg"])
        cfg["hot"] = [cfg["hot"][0], 2.5]
        cfg["cold"] = [cfg["cold"][0], 1.5]
        frac.append(("S-park2/fractional-rates", dict(c, cfg=cfg)))
    out += common.add_algs(frac, common.park_algs, feasible_only=False)
    return common.rotate(out, seed)


def judge(case, r):
    vs = []
    df = r.sim.monitor.df
    rows = full.df_rows(df)
    M = len(case["cfg"]["machines"])
    T = r.end_time
    if r.outcome != "returned":
        T = int(T) + 1 if rows and len(rows) > T else T
    simulated = sorted(t for t in r.bsnaps if t < r.end_time) \
        if r.outcome == "returned" else sorted(
            t for t in r.bsnaps if t < len(rows))
    if r.outcome == "returned" and len(rows) != len(simulated):
        vs.append(("C12.one-row-per-step", "row-count-%s" % (
            "short" if len(rows) < len(simulated) else "long"),
            {"rows": len(rows), "instants": len(simulated)}))
    if list(df.index) != list(range(len(df))):
        vs.append(("C12.one-row-per-step", "index-not-contiguous",
                   {"index": list(df.index)[:20]}))
    bad = {}
    for t in simulated:
        if t >= len(rows):
            break
        want = full.truth_row(r.bsnaps[t], M)
        for c in COLS:
            if c not in rows[t]:
                bad.setdefault(c, ("missing", t, None, want[c]))
            elif rows[t][c] != want[c] and c not in bad:
                bad[c] = ("wrong", t, rows[t][c], want[c])
    for c, (kind, t, got, want) in bad.items():
        vs.append(("C12.row-is-true", "column-%s:%s" % (c, kind),
                   {"t": t, "reported": got, "true": want}))
    return vs


def nontrivial(r):
    acts = r.probe.acts
    ing = [a for a in acts if a["kind"] == "alloc_ingest"]
    for i, a in enumerate(ing):
        for b in ing[i + 1:]:
            if b["t0"] < (a["t1"] if a["t1"] is not None else 1e18):
                return True
    return any(a["kind"] in ("h2c", "c2h") for a in acts) or \
        any(c["kind"] == "prov_batch" for c in r.probe.calls)


def run(rep, tier, seed):
    rep.rule = RULE
    rep.assumptions = ["'machines not running a task' = M - |ingest pool| - "
                       "|occupied pool| (reserved-idle machines are free)"]
    cs = cases(tier, seed)
    from ..engine import _state_key

    def work(i, item):
        sc, case = item
        r = runmod.execute(case, (), (), e1.horizon_of(case), light=False,
                           keep_snaps=True)
        return (judge(case, r), r.probe.n_events, nontrivial(r),
                [_state_key(s) for s in r.bsnaps.values()],
                e1.outcome_key(r), r.outcome, len(r.sim.monitor.df))
    res, _ = engine.parallel_map(work, cs)
    # the table must also be complete when the run was paused and resumed
    # (start(k); resume(T)): one row per simulated step, read from
    # sim.monitor.df as a user would after resume()
    paused = []
    for (sc, case), r0 in zip(cs, res):
        if r0[5] != "returned" or not common.keep(len(paused) + r0[6], 6):
            continue
        T = int(r0[6]) + 1
        for k in sorted({1, max(1, T // 2), T - 1}):
            if 0 < k < T:
                paused.append((sc + "/paused", dict(case, pauses=[k, T])))
    res2, _ = engine.parallel_map(work, paused)
    cs = cs + paused
    res = res + res2
    for (sc, case), (vs, ne, nt, st, ok, outcome, nrows) in zip(cs, res):
        s = rep.scope(sc)
        s["cases"] += 1
        s["executions"] += 1
        rep.evaluations += 1
        rep.transitions += ne
        rep.states.update(st)
        rep.outcomes.add(ok)
        rep.traces_validated += 1
        if nt:
            rep.nontrivial.add(hash(repr(case)))
        if len(rep.samples) < 2 and nt:
            rep.add_sample({"case": case, "outcome": outcome,
                            "rows": nrows})
        for clause, cause, det in vs:
            rep.violation(clause, cause, {"engine": "E1", "case": case,
                                          "light": False}, det, sc)
    rep.confirm = replay


def replay(payload):
    case = payload["case"]
    r = runmod.execute(case, (), (), e1.horizon_of(case), light=False,
                       keep_snaps=True)
    return [{"clause": a, "cause": b, "detail": c}
            for a, b, c in judge(case, r)]
