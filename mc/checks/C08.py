"""C08 -- observations start only when all resources are free; on time when
idle."""
from .. import e1, monitors, world
from . import common

RULE = ("E1: S-plan (simultaneous / overlapping / back-to-back starts, "
        "array demands, ingest demand and limit {1,2}, M in {1,2,3}), "
        "S-buffer (sizes around capacity), S-contend x shipped pairings; "
        "oracle: array use and ingest pool bounded after every event; each "
        "start is at/after the planned start with arrays, machines (within "
        "the ingest limit) and hot+cold room at the boundary state of that "
        "instant (cumulatively for same-instant starts); ingest holds exactly "
        "the demand for exactly the duration; W->R->F once; an observation "
        "due while the system is completely idle starts on time; "
        "non-trivial = at least one observation started")


def monitors_for(case):
    return [monitors.Admission()]


def cases(tier, seed):
    lvl = "thorough" if tier == "thorough" else "quick"
    plan = list(common.plan_scope(lvl))
    buf = list(common.buffer_scope(lvl))
    con = list(common.contend(lvl))
    if tier != "thorough":
        buf = common.thin(buf, 2)
        con = common.thin(con, 4)
    out = common.add_algs(plan + buf + con, lambda c: common.shipped(
        c, lvl, "diag", greedy=(tier == "thorough")))
    if tier == "thorough":
        out += common.add_algs(common.buffer3_scope(), lambda c: [
            {"kind": "queue"}, {"kind": "batch", "p": 1, "min": 1},
            {"kind": "batch", "p": 2, "min": 1}])
        out += common.add_algs(common.contend3(lvl),
                               lambda c: common.shipped(c, lvl, "diag"))
        # task delays create other load states at the moment of a start
        out = [(sc, dict(c, delay={"mode": "choice", "arity": 3})
                if c["alg"]["kind"] in ("queue", "batch") else c)
               for sc, c in out]
    out += common.add_algs(common.park_scope(lvl), common.park_algs)
    out += common.add_algs(common.park2_scope(lvl), common.park_algs)
    out += common.add_algs(common.offgrid_scope(lvl), common.park_algs)
    return common.rotate(out, seed)


def repeated_name_cases(tier):
    """two runs of one pipeline (same name, same attributes) whose ingests
    overlap, and a third observation falling due while the second is still
    ingesting, with hot room for it only if the second's outstanding volume
    is ignored"""
    from ..scopes import mkobs, mkcfg, mkcase, dag, CLUSTERS
    out = []
    wa = dag("chain2", [1, 1], [0])
    wc = dag("single", [1])
    caps = (14, 18, 22) if tier != "thorough" else (12, 14, 16, 18, 20, 22, 26)
    for cap in caps:
        for s2 in (1, 2):
            for sc in (3, 4, 5):
                for rc in (2, 4):
                    obs = [mkobs("a", 0, 3, 2, 1, 1, "wa"),
                           mkobs("a", s2, 3, 2, 1, 1, "wa"),
                           mkobs("c", sc, 2, rc, 1, 1, "wc")]
                    cfg = mkcfg(CLUSTERS[4][0], obs, (cap, 10), (100, 10),
                                3, 3)
                    for alg in ({"kind": "queue"},
                                {"kind": "batch", "p": 1, "min": 1}):
                        out.append(("S-repeated-name", mkcase(
                            cfg, {"wa": wa, "wc": wc}, alg)))
    return out


def run(rep, tier, seed):
    rep.rule = RULE
    rep.assumptions = [
        "'at that moment' = state at the beginning of the timestep in which "
        "the observation starts (the telescope is the first actor to act); "
        "room is judged per observation against current free space (literal "
        "reading; cumulative buffer accounting is C07's concern)"]
    cs = cases(tier, seed) + repeated_name_cases(tier)
    e1.sweep(rep, cs, monitors_for,
             {"delay": 1} if tier == "thorough" else {})
    e1.conformance(rep, cs[::max(1, len(cs) // 40)])


def replay(payload):
    vs, _ = e1.replay_payload(payload, monitors_for)
    return vs
