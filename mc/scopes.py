"""Scope building blocks (DESIGN.md 3.4): small explicit alphabets, ordered
simplest-first so that the first counterexample is also the smallest."""
import itertools

from . import world
from .world import dag

CLUSTERS = {
    1: [[[1, 1]], [[2, 2]]],
    2: [[[1, 1], [1, 1]], [[1, 1], [2, 2]], [[2, 1], [1, 2]]],
    3: [[[1, 1], [1, 1], [1, 1]], [[1, 1], [2, 2], [2, 2]],
        [[2, 2], [1, 1], [1, 1]]],
    4: [[[1, 1]] * 4, [[1, 1], [2, 2], [1, 1], [2, 2]]],
}


def mkobs(name, start, dur, rate=1, demand=1, ingest=1, wf=None):
    return {"name": name, "start": start, "dur": dur, "demand": demand,
            "rate": rate, "ingest": ingest, "wf": wf or ("w" + name)}


def mkcfg(machines, obs, hot=(100, 10), cold=(100, 10), arrays=2,
          max_ingest=2, timestep="seconds"):
    return {"machines": [list(m) for m in machines], "sysbw": 1,
            "arrays": arrays, "max_ingest": max_ingest, "timestep": timestep,
            "hot": list(hot), "cold": list(cold), "obs": obs}


def mkcase(cfg, wfs, alg=None, **kw):
    c = {"cfg": cfg, "wfs": wfs}
    if alg is not None:
        c["alg"] = alg
    c.update(kw)
    return c


def assignments(case, limit=None):
    """All task->machine assignments of all workflows of the case
    ({obs: {node: machine index}}), M^n of them."""
    cfg = case["cfg"]
    M = len(cfg["machines"])
    slots = []
    for o in cfg["obs"]:
        for n in case["wfs"][o["wf"]]["nodes"]:
            slots.append((o["name"], str(n[0])))
    out = []
    for combo in itertools.product(range(M), repeat=len(slots)):
        a = {}
        for (name, node), m in zip(slots, combo):
            a.setdefault(name, {})[node] = m
        out.append(a)
        if limit and len(out) >= limit:
            break
    return out


def batch_algs(M, ps=(1, 2), mins=(1, 2), obs_names=None, splits=()):
    out = []
    for p in ps:
        for mn in mins:
            if M // p >= mn:
                out.append({"kind": "batch", "p": p, "min": mn})
    for sp in splits:
        out.append({"kind": "batch", "p": sp.get("p", 2), "min": sp["min"],
                    "split": sp["split"]})
    return out


def shipped_pairings(case, static="all", batch_ps=(1, 2), batch_mins=(1, 2),
                     greedy=True, static_limit=None):
    """All shipped planner/scheduler pairings for the case (alg dicts)."""
    M = len(case["cfg"]["machines"])
    algs = [{"kind": "queue"}]
    algs += batch_algs(M, batch_ps, batch_mins)
    if static:
        asg = assignments(case, static_limit)
        if static == "diag":
            # round-robin and all-on-one only
            asg = [a for a in asg if _is_simple(a, M)]
        for a in asg:
            algs.append({"kind": "dynamic", "assign": a})
            if greedy:
                algs.append({"kind": "greedy", "assign": a})
    return algs


def _is_simple(a, M):
    vals = [m for d in a.values() for m in d.values()]
    if len(set(vals)) == 1:
        return True
    return all(v == i % M for i, v in enumerate(vals))


def with_algs(cases, algs_fn):
    for scope, case in cases:
        for alg in algs_fn(case):
            c = dict(case)
            c["alg"] = alg
            yield scope, c


# ---- DAG menus -------------------------------------------------------------

def small_dags(level=1):
    """(label, wf) simplest-first."""
    out = [("single", dag("single", [2])),
           ("chain2", dag("chain2", [1, 2], [1])),
           ("indep2", dag("indep2", [2, 1])),
           ("fork", dag("fork", [1, 2, 1], [2, 0])),
           ("join", dag("join", [1, 2, 1], [1, 3])),
           ("diamond", dag("diamond", [1, 2, 3, 1], [1, 2, 0, 3]))]
    if level >= 2:
        out += [("chain3", dag("chain3", [3, 0, 4], [3, 1])),
                ("single0", dag("single", [0])),
                ("fork-data", dag("fork", [2, 1, 4], [1, 1],
                                  data=[0, 3, 1]))]
    return out
