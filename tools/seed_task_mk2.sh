#!/bin/sh
# (kept for reference: generates /tmp/seed/<Cxx-N>/TASK.md for a seeding sub-agent; paths assume /tmp/seed)
# usage: mk2.sh Cxx N  (second-wave: tells the agent which mechanism is already taken)
P="$1"; N="$2"
/tmp/seed/mk.sh "$P" "$N" || exit 1
python3 - "$P" "$N" <<'PY'
import json, sys
pid, n = sys.argv[1:3]
avoid = json.load(open('/tmp/seed/avoid.json'))[pid]
w = "/tmp/seed/%s-%s" % (pid, n)
open(w + "/TASK.md", "a").write(f"""
## Already taken
Another change for this property already exists; it is based on: **{avoid}**.
Produce a change with a *different site and a different mechanism* (ideally in a different file), and prefer one that
manifests only in a multi-step or timing-dependent situation.

## Housekeeping
Do not use `git stash` (the stash is shared between worktrees); to get an unchanged copy use
`git -C {w} archive HEAD | tar -x -C /tmp/seed/out/{pid}-{n}/orig` (create the directory first).
""")
PY
