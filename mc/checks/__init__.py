"""One module per property: run(rep, tier, seed) and replay(payload)."""
