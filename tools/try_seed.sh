#!/bin/sh
# usage: try_seed.sh <dir with patch.diff + demo.py> <check id>...
# Confirms a seeded change (applies cleanly to /repo HEAD, pinned tests still pass, demo passes on
# the unchanged tree and fails on the changed one), then runs the given checks against the changed tree.
D="$1"; shift
W="$(mktemp -d /tmp/sw.XXXXXX)"; S="$(mktemp -d /tmp/se.XXXXXX)"
git -C /repo worktree add -q --detach "$W" HEAD || exit 2
if ! git -C "$W" apply "$D/patch.diff"; then echo "PATCH DOES NOT APPLY"; git -C /repo worktree remove --force "$W"; exit 2; fi
echo "--- pinned tests on changed tree"; /verif/tools/pinned_tests.sh "$W"
echo "--- demo on unchanged /repo"; (cd "$D" && PYTHONPATH=/repo TQDM_DISABLE=1 timeout 600 /venv/bin/python -W ignore demo.py >/tmp/demo.base.log 2>&1; echo "exit=$?"; tail -2 /tmp/demo.base.log | cut -c1-200)
echo "--- demo on changed tree"; (cd "$D" && PYTHONPATH="$W" TQDM_DISABLE=1 timeout 600 /venv/bin/python -W ignore demo.py >/tmp/demo.mut.log 2>&1; echo "exit=$?"; tail -3 /tmp/demo.mut.log | cut -c1-300)
for P in "$@"; do
  echo "--- check $P on changed tree"
  (cd /verif && TOPSIM_REPO="$W" VERIF_EVIDENCE_DIR="$S/evidence" VERIF_REPLAY_DIR="$S/replays" /venv/bin/python check.py "$P" --tier "${TIER:-quick}" 2>&1 | grep -E "^(VIOLATION|  clause|KNOWN|HARNESS|C[0-9]+ )" | cut -c1-260; )
done
git -C /repo worktree remove --force "$W"; rm -rf "$W" "$S"
