"""C11 -- pausing and resuming is transparent."""
import itertools

from .. import e1, engine, full, world, run as runmod
from . import common, C12

RULE = ("E1/FULL with pause histories (N6): reference = one uninterrupted "
        "start(runtime=T), T = natural end + 2; for EVERY k in 1..T-1 and "
        "every split of the remainder with <=1 (quick) / <=2 (thorough) "
        "further pauses (all compositions when T<=8 in thorough): start(k); "
        "resume(u1); ...; resume(T); oracle: boundary-snapshot trajectory, "
        "per-timestep table (minus algtime), task table and event log equal "
        "the reference; the same against the open-ended start() with "
        "start(k); resume(natural end); at every pause point a second start() raises "
        "RuntimeError and changes nothing; resume() on a fresh simulation "
        "raises and changes nothing; non-trivial = every paused history")


class StartTwice:
    """at every pause point: start() again must raise and change nothing"""

    def __init__(self):
        self.problems = []

    def on_pause(self, run, now):
        sim = run.sim
        before = runmod.freeze(runmod.snapshot(sim))
        qlen = len(run.env._queue)
        try:
            sim.start()
            self.problems.append(("C11.start-twice-refused",
                                  "second-start-accepted", {"t": now}))
        except RuntimeError:
            pass
        except runmod.HorizonReached:
            self.problems.append(("C11.start-twice-refused",
                                  "second-start-accepted", {"t": now}))
        after = runmod.freeze(runmod.snapshot(sim))
        if before != after or len(run.env._queue) != qlen:
            self.problems.append(("C11.start-twice-refused",
                                  "refused-start-changed-state",
                                  {"t": now, "queue": [qlen,
                                                       len(run.env._queue)]}))


def observe(case, start_twice=False):
    mons = [StartTwice()] if start_twice else []
    r = runmod.execute(case, mons, (), e1.horizon_of(case) + 4, light=False,
                       keep_snaps=True)
    if r.outcome != "returned":
        return r, None, mons
    out = full.outputs(r)
    out["traj"] = [runmod.freeze(r.bsnaps[t]) for t in sorted(r.bsnaps)]
    return r, out, mons


def diff(ref, got):
    vs = []
    for key, clause in (("traj", "C11.same-trajectory"),
                        ("df", "C11.same-table"),
                        ("tasks", "C11.same-task-table"),
                        ("events", "C11.same-event-log")):
        if ref[key] != got[key]:
            a, b = ref[key], got[key]
            if key == "events":
                extra = [e for e in b if b.count(e) > a.count(e)]
                missing = [e for e in a if a.count(e) > b.count(e)]
                cause = ("events-duplicated" if extra and not missing else
                         "events-missing" if missing and not extra else
                         "events-differ")
                det = {"extra": extra[:4], "missing": missing[:4]}
            elif key == "tasks":
                cause = "task-table-differs"
                det = {"ref": sorted(a)[:6], "got": sorted(b)[:6]}
            else:
                n = next((i for i, (x, y) in enumerate(zip(a, b))
                          if x != y), min(len(a), len(b)))
                cause = ("rows-%s" % ("fewer" if len(b) < len(a) else "more")
                         if len(a) != len(b) and n >= min(len(a), len(b))
                         else "differs-from-step")
                det = {"first_difference_at": n, "len": [len(a), len(b)]}
                if key == "df" and n < min(len(a), len(b)):
                    det["columns"] = [c for c in a[n]
                                      if a[n].get(c) != b[n].get(c)][:6]
            vs.append((clause, cause, det))
    return vs


def histories(T, tier):
    hs = [[k, T] for k in range(1, T)]
    extra = 2 if tier == "thorough" else 1
    if tier == "thorough" and T <= 8:
        for n in range(2, T):
            for cut in itertools.combinations(range(1, T), n):
                hs.append(list(cut) + [T])
    else:
        for k in range(1, T):
            rest = range(k + 1, T)
            pick = list(rest) if tier == "thorough" else list(rest)[::3]
            for u in pick:
                hs.append([k, u, T])
    seen, out = set(), []
    for h in hs:
        if tuple(h) not in seen:
            seen.add(tuple(h))
            out.append(h)
    return out


def long_task_configs(tier):
    """tasks of 3-6 steps (processes that sleep for several steps at once
    come to sit before the monitor inside a timestep) with another
    observation's buffer events at every offset around the workflow's end"""
    from ..scopes import mkobs, mkcfg, mkcase, dag, CLUSTERS
    out = []
    wa = dag("fork", [4, 3, 5], [0, 4])
    wb = dag("chain2", [3, 1], [2])
    # (a's workflow ends at 16/17: b's start, store and hand-over events
    # fall one step before, at and after it)
    for s2 in ((9, 11, 12, 13, 14, 15, 16, 17) if tier == "thorough"
               else (13, 14, 15, 16)):
        obs = [mkobs("a", 0, 2, 1, 1, 1, "wa"),
               mkobs("b", s2, 2, 1, 1, 1, "wb")]
        cfg = mkcfg(CLUSTERS[3][0], obs, (100, 10), (100, 10), 2, 2)
        for alg in ({"kind": "queue"}, {"kind": "batch", "p": 2, "min": 1}):
            out.append(("S-long-tasks", mkcase(cfg, {"wa": wa, "wb": wb},
                                               alg)))
    return out


def configs(tier, seed):
    cs = C12.cases(tier, seed)
    n = 600 if tier == "thorough" else 24
    # tiering-heavy configurations (observations parked in cold storage and
    # brought back): what the buffer decides in a step must not depend on
    # whether the run was paused at that step
    lvl = "thorough" if tier == "thorough" else "quick"
    park = common.add_algs(
        common.thin(list(common.park2_scope(lvl)),
                    108 if tier != "thorough" else 12),
        lambda c: [{"kind": "queue"}], feasible_only=False)
    from ..scopes import mkobs, mkcfg, mkcase, dag, CLUSTERS
    wf = dag("fork", [2, 1, 2], [0, 1])
    for sy in ((2, 3) if tier != "thorough" else (1, 2, 3, 4)):
        for sz in ((14,) if tier != "thorough" else (10, 12, 14, 16)):
            obs = [mkobs("x", 1, 4, 2, 1, 1, "w"),
                   mkobs("y", sy, 4, 2, 1, 1, "w"),
                   mkobs("z", sz, 2, 1, 1, 1, "w")]
            cfg = mkcfg(CLUSTERS[3][0], obs, (20, 10), (40, 10), 3, 3)
            for alg in ({"kind": "queue"}, {"kind": "batch", "p": 1,
                                            "min": 1}):
                park.append(("S-tiering-under-pause",
                             mkcase(cfg, {"w": wf}, alg)))
    return cs[::max(1, len(cs) // n)] + long_task_configs(tier) + park


def check_fresh_resume(case, ref):
    run = runmod.build(case, None, e1.horizon_of(case) + 4, light=False)
    sim = run.sim
    before = runmod.freeze(runmod.snapshot(sim))
    vs = []
    try:
        sim.resume(until=3)
        vs.append(("C11.resume-before-start-refused",
                   "resume-before-start-accepted", {}))
    except RuntimeError:
        pass
    if runmod.freeze(runmod.snapshot(sim)) != before or run.env._queue:
        vs.append(("C11.resume-before-start-refused",
                   "refused-resume-changed-state",
                   {"queue": len(run.env._queue)}))
    run.probe.done = True
    runmod.seams._CUR["probe"] = None
    return vs


def run(rep, tier, seed):
    rep.rule = RULE
    rep.assumptions = ["T = natural end + 2 idle steps, so that the last "
                       "events have been collected in both runs"]
    cfgs = configs(tier, seed)

    def ref_work(i, item):
        sc, case = item
        r, out, _ = observe(case)
        if out is None:
            return None
        return int(r.end_time) + 2
    ends, _ = engine.parallel_map(ref_work, cfgs)
    groups = []
    for (sc, case), T in zip(cfgs, ends):
        if T is None:
            continue
        groups.append((sc, case, T, [None] + histories(T, tier)))

    def gwork(i, g):
        sc, case, T, hs = g
        rc = dict(case, runtime=T)
        r0, ref, _ = observe(rc)
        out = [one(case, T, h, rc, r0, ref) for h in hs]
        # second reference: the open-ended start() (it is the only path that
        # polls is_finished()); paused runs end at its natural end T0
        ru, refu, _ = observe(case)
        if refu is not None:
            T0 = int(ru.end_time)
            ks = sorted({1, max(1, T0 // 2), T0 - 1}) if tier != "thorough" \
                else range(1, T0)
            for k in ks:
                if 0 < k < T0:
                    h = [k, T0]
                    r, got, mons = observe(dict(case, pauses=h),
                                           start_twice=True)
                    if got is None:
                        vs = [("C11.same-trajectory", "paused-run-%s"
                               % r.outcome, {"exc": r.exc})]
                    else:
                        vs = [(c, "%s:vs-open-ended-start" % cause, d)
                              for c, cause, d in diff(refu, got)]
                        vs += mons[0].problems
                    out.append(("run-open", vs, r.probe.n_events, h))
        return out

    def one(case, T, h, rc, r0, ref):
        if ref is None:
            return ("skip", [], 0)
        if h is None:
            # reference itself: determinism + refusal clauses on a fresh sim
            r1, again, _ = observe(rc)
            vs = [("C11.same-trajectory", "reference-not-reproducible", d)
                  for _, _, d in diff(ref, again)] if again != ref else []
            vs += check_fresh_resume(rc, ref)
            return ("ref", vs, r0.probe.n_events)
        pc = dict(case, pauses=h)
        r, got, mons = observe(pc, start_twice=True)
        if got is None:
            return ("run", [("C11.same-trajectory",
                             "paused-run-%s" % r.outcome,
                             {"exc": r.exc})], r.probe.n_events)
        vs = diff(ref, got)
        vs += mons[0].problems
        return ("run", vs, r.probe.n_events)
    gres, _ = engine.parallel_map(gwork, groups, chunk=1)
    items, res = [], []
    for (sc, case, T, hs), rr in zip(groups, gres):
        rr = rr or []
        for h, r in zip(hs, rr):
            items.append((sc, case, T, h))
            res.append(r)
        for r in rr[len(hs):]:
            items.append((sc, case, "open", r[3]))
            res.append(r[:3])
    for (sc, case, T, h), (kind, vs, ne) in zip(items, res):
        if kind == "skip":
            continue
        s = rep.scope(sc)
        s["executions"] += 1
        if h is None:
            s["cases"] += 1
        rep.evaluations += 1
        rep.transitions += ne
        rep.traces_validated += 1
        rep.states.add(hash((repr(case), tuple(h or ()))))
        if h is not None:
            rep.nontrivial.add(hash((repr(case), tuple(h))))
        rep.outcomes.add(str(T))
        if h is not None and len(rep.samples) < 2 and len(h) > 2:
            rep.add_sample({"case": case, "T": T, "pause_history": h})
        for clause, cause, det in vs:
            rep.violation(clause, cause,
                          {"engine": "E1", "case": case, "T": T,
                           "history": h}, det, sc)
    rep.extra["states_note"] = ("states = distinct (configuration, pause "
                                "history) pairs executed in FULL mode")
    rep.confirm = replay


def replay(payload):
    case, T, h = payload["case"], payload["T"], payload["history"]
    if T == "open":
        ru, refu, _ = observe(case)
        if refu is None:
            return []
        r, got, mons = observe(dict(case, pauses=h), start_twice=True)
        if got is None:
            vs = [("C11.same-trajectory", "paused-run-%s" % r.outcome, None)]
        else:
            vs = [(c, "%s:vs-open-ended-start" % cause, d)
                  for c, cause, d in diff(refu, got)] + mons[0].problems
        return [{"clause": a, "cause": b, "detail": c} for a, b, c in vs]
    rc = dict(case, runtime=T)
    r0, ref, _ = observe(rc)
    if ref is None:
        return []
    if h is None:
        r1, again, _ = observe(rc)
        vs = [("C11.same-trajectory", "reference-not-reproducible", d)
              for _, _, d in diff(ref, again)] if again != ref else []
        vs += check_fresh_resume(rc, ref)
    else:
        r, got, mons = observe(dict(case, pauses=h), start_twice=True)
        if got is None:
            vs = [("C11.same-trajectory", "paused-run-%s" % r.outcome, None)]
        else:
            vs = diff(ref, got) + mons[0].problems
    return [{"clause": a, "cause": b, "detail": c} for a, b, c in vs]
