"""C10 -- simulations are reproducible, also across hash seeds."""
import itertools
import json
import os
import subprocess
import sys

from .. import e1, engine, full, world, seams, run as runmod
from ..scopes import mkobs, mkcfg, mkcase, dag, CLUSTERS
from ..seams import HarnessError
from . import common

from topsim.core.task import Task

RULE = ("E1 with the interpreter's set-iteration order owned by the explorer "
        "(N5): for each case of S-ready (2-4 simultaneously ready tasks on "
        "1-3 homogeneous/heterogeneous machines, fewer machines than ready "
        "tasks included) x pairings, EVERY permutation of the hash order of "
        "the case's tasks (<=120) is executed (LIGHT: boundary trajectory + "
        "task table + call log), likewise every permutation of the hash "
        "order of the machines, first/last permutation and a back-to-back "
        "repeat in FULL (per-timestep table minus algtime, task table, event "
        "log); all must be identical.  Seam binding: the same cases in "
        "separate interpreter processes under K real PYTHONHASHSEED values "
        "must reproduce an enumerated output.  Real DelayModel instances "
        "that draw (3-4 distributions/degrees/seeds): three runs from fresh "
        "objects in one process must be identical; and the FULL output of a "
        "case run right after other simulations of the same process (a "
        "complete run on other machine speeds, an abandoned run, thorough: "
        "two abandoned runs) must equal its output alone.  non-trivial = case with >=2 "
        "simultaneously ready tasks")

CHILD = os.path.join(os.path.dirname(os.path.dirname(
    os.path.abspath(__file__))), "hashseed_child.py")


def seam_selftest():
    """distinct small-int hashes => set iterates in ascending hash order"""
    keys = ["a:%d" % i for i in range(5)]
    for perm in itertools.permutations(range(5)):
        hm = dict(zip(keys, perm))
        seams.set_hash_order(hm)
        try:
            ts = [Task("a_0_%d" % i, 0, 0, None, []) for i in range(5)]
            s = set()
            for t in ts:
                s.add(t)
            order = [t.id for t in s]
            want = [t.id for t in sorted(ts, key=lambda t: hm[
                "a:%s" % t.id.split("_")[-1]])]
        finally:
            seams.set_hash_order(None)
        if order != want:
            raise HarnessError("hash-order seam not faithful: %r vs %r"
                               % (order, want))


def ready_cases(tier):
    out = []
    dags = [("indep2", dag("indep2", [2, 1])),
            ("fork", dag("fork", [1, 2, 1], [1, 0])),
            ("indep3", dag("indep3", [1, 2, 3])),
            ("fork3", dag("fork3", [1, 1, 2, 3], [0, 1, 2])),
            # joins whose predecessors finish in the same step on other
            # machines, with different volumes on their edges
            ("join", dag("join", [1, 1, 1], [2, 6])),
            ("wjoin", dag("wjoin", [1, 1, 1, 1], [2, 6, 4]))]
    clusters = [CLUSTERS[1][0], CLUSTERS[2][0], CLUSTERS[2][1],
                CLUSTERS[3][1], CLUSTERS[3][0], CLUSTERS[4][0]]
    if tier == "thorough":
        clusters += [CLUSTERS[2][2], CLUSTERS[3][2]]
        dags.append(("diamond", dag("diamond", [1, 2, 3, 1], [1, 2, 0, 3])))
    for machines in clusters:
        M = len(machines)
        for label, wa in dags:
            for two in (False, True):
                obs = [mkobs("a", 0, 1, 1, 1, 1, "wa")]
                wfs = {"wa": wa}
                if two:
                    if len(wa["nodes"]) > 3:
                        continue
                    obs.append(mkobs("b", 1, 1, 1, 1, 1, "wb"))
                    wfs["wb"] = dag("indep2", [1, 2])
                cfg = mkcfg(machines, obs, (100, 10), (100, 10), 2, 2)
                case = mkcase(cfg, wfs)
                algs = [{"kind": "queue"}, {"kind": "batch", "p": 1,
                                            "min": 1}]
                if M >= 2:
                    algs.append({"kind": "batch", "p": 2, "min": 1})
                # static plans in which ready tasks tie on est
                rr = {o["name"]: {str(n[0]): i % M for i, n in enumerate(
                    wfs[o["wf"]]["nodes"])} for o in obs}
                one = {o["name"]: {str(n[0]): 0 for n in
                                   wfs[o["wf"]]["nodes"]} for o in obs}
                for a in (rr, one):
                    algs.append({"kind": "dynamic", "assign": a})
                    algs.append({"kind": "greedy", "assign": a})
                for alg in algs:
                    if two and tier != "thorough" and alg["kind"] != "batch":
                        continue
                    out.append(("S-ready%s/%s" % ("2" if two else "",
                                                  alg["kind"]),
                                dict(case, alg=alg)))
    return out


def delay_cases(tier):
    """real DelayModel instances that actually draw: 'same delay seed =>
    same run' must also hold for runs made one after another in ONE process
    (fresh objects each time)"""
    out = []
    wa = dag("fork", [8, 12, 9], [1, 0])
    wb = dag("chain2", [10, 8], [2])
    specs = [("normal", "LOW", 0.5, 20), ("normal", "HIGH", 0.3, 7),
             ("poisson", "MID", 0.5, 20), ("uniform", "HIGH", 0.9, 3),
             # seed 0 is a seed like any other
             ("normal", "MID", 0.5, 0)]
    if tier == "thorough":
        specs += [("normal", "MID", 0.1, 1), ("poisson", "LOW", 0.7, 11),
                  ("uniform", "LOW", 0.5, 20)]
    for machines in (CLUSTERS[2][0], CLUSTERS[2][1]):
        obs = [mkobs("a", 0, 1, 1, 1, 1, "wa"),
               mkobs("b", 1, 2, 1, 1, 1, "wb")]
        cfg = mkcfg(machines, obs, (100, 10), (100, 10), 2, 2)
        for dist, deg, prob, sd in specs:
            for alg in ({"kind": "queue"}, {"kind": "batch", "p": 1,
                                            "min": 1}):
                out.append(("S-delaymodel/%s" % alg["kind"],
                            mkcase(cfg, {"wa": wa, "wb": wb}, alg,
                                   delay={"mode": "model", "dist": dist,
                                          "degree": deg, "prob": prob,
                                          "seed": sd})))
    return out


def task_keys(case):
    ks = []
    for o in case["cfg"]["obs"]:
        for n in case["wfs"][o["wf"]]["nodes"]:
            ks.append("%s:%s" % (o["name"], n[0]))
    return ks


def machine_keys(case):
    return ["M:%s" % m for m in world.machine_ids(case["cfg"])]


def hash_orders(case):
    """every permutation of the task hash order (machines in identity
    order) and every permutation of the machine hash order (tasks in
    identity order): objects hashed by a string id are the only way the hash
    seed can reach a run.  Values stay below 8 per class so that CPython
    sets iterate in ascending hash order."""
    tk, mk = task_keys(case), machine_keys(case)
    if len(tk) > 5:
        # per-workflow permutations, other workflows in identity order
        groups = {}
        for k in tk:
            groups.setdefault(k.split(":")[0], []).append(k)
        seen = set()
        for g, keys in groups.items():
            for perm in itertools.permutations(range(len(keys))):
                hm = {k: i for i, k in enumerate(tk)}
                base = [hm[k] for k in keys]
                for k, p in zip(keys, perm):
                    hm[k] = base[p]
                hm.update({k: i for i, k in enumerate(mk)})
                key = tuple(sorted(hm.items()))
                if key not in seen:
                    seen.add(key)
                    yield hm
    else:
        for perm in itertools.permutations(range(len(tk))):
            hm = dict(zip(tk, perm))
            hm.update({k: i for i, k in enumerate(mk)})
            yield hm
    for perm in itertools.permutations(range(len(mk))):
        if list(perm) == list(range(len(mk))):
            continue
        hm = {k: i for i, k in enumerate(tk)}
        hm.update(dict(zip(mk, perm)))
        yield hm


def light_sig(case, hm):
    c = dict(case, hashmap=hm)
    r = runmod.execute(c, (), (), e1.horizon_of(case), light=True,
                       keep_snaps=True)
    calls = [(x["kind"], x["t"], x.get("obs") or x.get("name"))
             for x in r.probe.calls]
    acts = [(a["kind"], a["t0"], a.get("task"), a.get("machine"))
            for a in r.probe.acts]
    return (r.outcome, r.exc, r.end_time,
            tuple(runmod.freeze(r.bsnaps[t]) for t in sorted(r.bsnaps)),
            tuple(sorted(runmod.task_table(r.sim).items())),
            tuple(calls), tuple(acts)), r.probe.n_events


def full_out(case, hm):
    c = dict(case, hashmap=hm)
    r = runmod.execute(c, (), (), e1.horizon_of(case), light=False)
    if r.outcome != "returned":
        return {"outcome": r.outcome, "exc": list(r.exc or ())}
    o = full.outputs(r)
    o["outcome"] = "returned"
    return json.loads(json.dumps(o, default=repr))


def histories(case, tier="quick"):
    """Earlier simulations of the same process after which the case must
    still give the output of a fresh process."""
    plain = {k: v for k, v in case.items() if k not in ("hashmap", "before")}
    cfg = plain["cfg"]
    faster = dict(plain, cfg=dict(cfg, machines=[[c + 1, b + 1] for c, b in
                                                 cfg["machines"]]))
    hs = [("after-a-run-on-other-machine-speeds", [faster], {}),
          ("after-an-abandoned-run", [dict(plain, runtime=2)], {})]
    if plain.get("alg", {}).get("kind") == "batch":
        a = plain["alg"]
        other = dict(a, p=1 if a.get("p", 1) != 1 else 2,
                     min=1 if a.get("min", 1) != 1 else 2)
        M = len(cfg["machines"])
        if M // other["p"] >= other["min"]:
            hs.append(("after-a-batch-run-with-other-partitioning",
                       [dict(plain, alg=other)], {}))
    # the same file names with other content earlier in the process: every
    # workflow gets one more unit of compute per node in the earlier run
    edited = dict(plain, fixed_paths=True, wfs={
        k: dict(w, nodes=[[n[0], n[1] + 1] + list(n[2:]) for n in w["nodes"]])
        for k, w in plain["wfs"].items()})
    hs.append(("after-a-run-of-edited-workflow-files-under-the-same-names",
               [edited], {"fixed_paths": True}))
    if tier == "thorough":
        hs.append(("after-two-abandoned-runs",
                   [dict(plain, runtime=1), dict(faster, runtime=3)], {}))
    return hs


def explain(a, b):
    """first difference between two light signatures"""
    names = ("outcome", "exception", "end_time", "trajectory", "task-table",
             "calls", "activations")
    for nm, x, y in zip(names, a, b):
        if x != y:
            return nm
    return "?"


def run(rep, tier, seed):
    rep.rule = RULE
    rep.assumptions = [
        "hash orders are time-invariant total orders: every permutation of "
        "the task ids (<=5 tasks => all 120; per workflow beyond that) with "
        "machines in identity order, and every permutation of the machine "
        "ids with tasks in identity order (not their product)",
        "the hash seed can reach a run only through objects hashed by a "
        "string id (Task, Machine); bound to the interpreter by the "
        "cross-process runs under real PYTHONHASHSEED values"]
    seam_selftest()
    cs = common.rotate(ready_cases(tier), seed)

    def work(i, item):
        sc, case = item
        keys = task_keys(case)
        n = len(keys)
        sigs = {}
        nev = 0
        nruns = 0
        base = None
        for hm in hash_orders(case):
            sig, ne = light_sig(case, hm)
            nev += ne
            nruns += 1
            if base is None:
                base = sig
            if sig not in sigs:
                sigs[sig] = hm
        vs = []
        if len(sigs) > 1:
            others = [s for s in sigs if s != base]
            vs.append(("C10.same-across-hash-orders",
                       "%s-depends-on-set-order:%s" % (
                           explain(base, others[0]), case["alg"]["kind"]),
                       {"distinct_outcomes": len(sigs),
                        "hash_order_a": sigs[base],
                        "hash_order_b": sigs[others[0]]}))
        # FULL: first/last permutation + immediate repeat
        mk = machine_keys(case)
        ident = dict(zip(keys, range(n)))
        ident.update({k: i for i, k in enumerate(mk)})
        rev = dict(zip(keys, reversed(range(n))))
        rev.update({k: len(mk) - 1 - i for i, k in enumerate(mk)})
        f1 = full_out(case, ident)
        f2 = full_out(case, ident)
        f3 = full_out(case, rev)
        nruns += 3
        if f1 != f2:
            vs.append(("C10.same-in-one-process",
                       "back-to-back-runs-differ:%s" % case["alg"]["kind"],
                       {"keys": [k for k in f1 if f1.get(k) != f2.get(k)]}))
        if f1 != f3 and len(sigs) == 1:
            vs.append(("C10.same-across-hash-orders",
                       "tables-depend-on-set-order:%s" % case["alg"]["kind"],
                       {"keys": [k for k in f1 if f1.get(k) != f3.get(k)]}))
        for label, before, extra in histories(case, tier):
            f4 = full_out(dict(case, before=before, **extra), ident)
            nruns += 1 + len(before)
            if f4 != f1:
                vs.append(("C10.same-in-one-process",
                           "run-differs-%s:%s" % (label, case["alg"]["kind"]),
                           {"keys": [k for k in f1
                                     if f1.get(k) != f4.get(k)]}))
        return vs, nruns, nev, len(sigs), f1
    res, _ = engine.parallel_map(work, cs)
    full_by_case = []
    for (sc, case), (vs, nruns, nev, nsig, f1) in zip(cs, res):
        s = rep.scope(sc)
        s["cases"] += 1
        s["executions"] += nruns
        rep.evaluations += nruns
        rep.transitions += nev
        rep.states.add(hash(repr(case)))
        rep.outcomes.add(nsig)
        if len(task_keys(case)) >= 2:
            rep.nontrivial.add(hash(repr(case)))
        full_by_case.append(f1)
        for clause, cause, det in vs:
            rep.violation(clause, cause, {"engine": "E1", "case": case},
                          det, sc)
    rep.add_sample({"case": cs[0][1], "permutations": "all %d! orders" %
                    len(task_keys(cs[0][1]))})
    # ---- same delay seed, several runs in one process --------------------
    dcs = delay_cases(tier)

    def dwork(i, item):
        sc, case = item
        outs = [full_out(case, None) for _ in range(3)]
        vs = []
        if outs[0] != outs[1] or outs[0] != outs[2]:
            vs.append(("C10.same-in-one-process",
                       "back-to-back-runs-differ:delay-model:%s"
                       % case["delay"]["dist"],
                       {"keys": [k for k in outs[0]
                                 if outs[0].get(k) != outs[1].get(k)
                                 or outs[0].get(k) != outs[2].get(k)]}))
        delayed = sum(1 for t in outs[0].get("tasks", {}).values()
                      if t.get("aft") is not None)
        return vs, outs[0]
    dres, _ = engine.parallel_map(dwork, dcs)
    drew = 0
    for (sc, case), (vs, o) in zip(dcs, dres):
        s_ = rep.scope(sc)
        s_["cases"] += 1
        s_["executions"] += 3
        rep.evaluations += 3
        rep.states.add(hash(repr(case)))
        if o.get("df") and any(r.get("schedule_status") == "DELAYED"
                               for r in o["df"]):
            drew += 1
            rep.nontrivial.add(hash(repr(case)))
        for clause, cause, det in vs:
            rep.violation(clause, cause, {"engine": "E1", "case": case,
                                          "delaymodel": True}, det, sc)
    if not drew:
        raise HarnessError("C10 vacuous: no delay-model case ever delayed "
                           "a task")
    cs_all = cs
    full_by_case = full_by_case
    rep.extra["states_note"] = "states = distinct static cases"
    # ---- cross-process binding under real hash seeds ----------------------
    K = 32 if tier == "thorough" else 4
    ncases = 48 if tier == "thorough" else 16
    pri = [i for i, (sc, c) in enumerate(cs) if sc.startswith("S-ready2")]
    rest = [i for i in range(len(cs)) if i not in set(pri)]
    pri = pri[::max(1, len(pri) // (ncases // 2))][:ncases // 2]
    rest = rest[::max(1, len(rest) // (ncases - len(pri)))][:ncases - len(pri)]
    idx = pri + rest
    seeds = [((seed * 7919 + 104729 * k) % 4294967295) + 1 for k in range(K)]
    jobs = [(i, sd) for i in idx for sd in seeds]
    # the delay-model cases too: string hashes must not leak into delays
    nd = len(dcs) if tier == "thorough" else 4
    didx = list(range(0, len(dcs), max(1, len(dcs) // nd)))[:nd]
    base_n = len(cs)
    cs = cs + [dcs[i] for i in didx]
    full_by_case = full_by_case + [dres[i][1] for i in didx]
    jobs += [(base_n + k, sd) for k in range(len(didx))
             for sd in seeds[:3 if tier != "thorough" else 8]]

    def child(j, job):
        i, sd = job
        env = dict(os.environ)
        env["PYTHONHASHSEED"] = str(sd)
        env["C10_REPEAT"] = "1"
        pr = subprocess.run([sys.executable, "-W", "ignore", CHILD],
                            input=json.dumps(cs[i][1]), text=True,
                            capture_output=True, env=env)
        if pr.returncode != 0:
            return ("error", pr.stderr[-500:])
        return ("ok", json.loads(pr.stdout)["outs"][0])
    cres, _ = engine.parallel_map(child, jobs, chunk=1)
    nproc = 0
    for (i, sd), (st, out) in zip(jobs, cres):
        if st != "ok":
            raise HarnessError("hash-seed child failed: %s" % out)
        nproc += 1
        rep.evaluations += 1
        want = full_by_case[i]
        if out != want:
            sc, case = cs[i]
            keys = [k for k in want if want.get(k) != out.get(k)]
            rep.violation("C10.same-across-processes",
                          "process-with-other-hash-seed-differs:%s%s"
                          % (case["alg"]["kind"],
                             ":delay-model" if case.get("delay") else ""),
                          {"engine": "E1", "case": case, "hashseed": sd},
                          {"differs_in": keys}, sc)
    rep.traces_validated = nproc
    rep.extra["hash_seeds"] = seeds
    rep.scope("cross-process")["cases"] = len(idx)
    rep.scope("cross-process")["executions"] = nproc
    # C10 is about reproducibility itself: a difference between two runs that
    # does not recur on a third run is still (all the more) a violation, so
    # violations are reported without the usual re-execution gate
    rep.confirm = None


def replay(payload):
    case = payload["case"]
    if payload.get("delaymodel"):
        outs = [full_out(case, None) for _ in range(3)]
        if outs[0] != outs[1] or outs[0] != outs[2]:
            return [{"clause": "C10.same-in-one-process",
                     "cause": "back-to-back-runs-differ:delay-model:%s"
                     % case["delay"]["dist"], "detail": None}]
        return []
    keys = task_keys(case)
    n = len(keys)
    vs = []
    if payload.get("hashseed"):
        ident = dict(zip(keys, range(n)))
        if case.get("delay"):
            ident = None
        want = full_out(case, ident)
        env = dict(os.environ)
        env["PYTHONHASHSEED"] = str(payload["hashseed"])
        pr = subprocess.run([sys.executable, "-W", "ignore", CHILD],
                            input=json.dumps(case), text=True,
                            capture_output=True, env=env)
        out = json.loads(pr.stdout)["outs"][0]
        if out != want:
            vs.append(("C10.same-across-processes",
                       "process-with-other-hash-seed-differs:%s%s"
                       % (case["alg"]["kind"],
                          ":delay-model" if case.get("delay") else ""),
                       None))
        return [{"clause": a, "cause": b, "detail": c} for a, b, c in vs]
    sigs = {}
    base = None
    for hm in hash_orders(case):
        sig, _ = light_sig(case, hm)
        if base is None:
            base = sig
        sigs.setdefault(sig, hm)
    if len(sigs) > 1:
        other = [s for s in sigs if s != base][0]
        vs.append(("C10.same-across-hash-orders",
                   "%s-depends-on-set-order:%s" % (
                       explain(base, other), case["alg"]["kind"]), None))
    mk = machine_keys(case)
    ident = dict(zip(keys, range(n)))
    ident.update({k: i for i, k in enumerate(mk)})
    rev = dict(zip(keys, reversed(range(n))))
    rev.update({k: len(mk) - 1 - i for i, k in enumerate(mk)})
    f1, f2 = full_out(case, ident), full_out(case, ident)
    f3 = full_out(case, rev)
    if f1 != f2:
        vs.append(("C10.same-in-one-process",
                   "back-to-back-runs-differ:%s" % case["alg"]["kind"],
                   None))
    if f1 != f3 and len(sigs) == 1:
        vs.append(("C10.same-across-hash-orders",
                   "tables-depend-on-set-order:%s" % case["alg"]["kind"],
                   None))
    for label, before, extra in histories(case, "thorough"):
        if full_out(dict(case, before=before, **extra), ident) != f1:
            vs.append(("C10.same-in-one-process",
                       "run-differs-%s:%s" % (label, case["alg"]["kind"]),
                       None))
    return [{"clause": a, "cause": b, "detail": c} for a, b, c in vs]
