"""Model-checking machinery for topsim (see /verif/DESIGN.md).

Importing this package puts /repo at the front of sys.path so that the checks
always run the *current working tree* of top-sim/topsim, never an installed
copy.
"""
import os
import sys

REPO = os.environ.get("TOPSIM_REPO", "/repo")
os.environ.setdefault("TQDM_DISABLE", "1")
os.environ.setdefault("PYTHONDONTWRITEBYTECODE", "1")
sys.dont_write_bytecode = True
if sys.path[0] != REPO:
    sys.path.insert(0, REPO)


def assert_repo_binding():
    import topsim
    f = os.path.realpath(topsim.__file__)
    if not f.startswith(os.path.realpath(REPO) + os.sep):
        raise SystemExit("harness error: topsim imported from %s, not %s"
                         % (f, REPO))
