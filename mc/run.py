"""Execute ONE case on the real implementation under the probe seams."""
import io
import os
import sys
import contextlib

from . import seams, world
from .seams import (ProbeEnvironment, Probe, Chooser, HarnessError,
                    HorizonReached)

from topsim.core.simulation import Simulation
from topsim.core.instrument import RunStatus
from topsim.user.telescope import Telescope

seams.install()

_DEVNULL = open(os.devnull, "w")


class Violation(dict):
    pass


class Run:
    """Everything one execution produced; monitors hang their state here."""

    def __init__(self, case, sim, env, probe):
        self.case = case
        self.sim = sim
        self.env = env
        self.probe = probe
        self.outcome = None        # returned | exception | horizon
        self.exc = None            # (type, site, msg)
        self.exc_obj = None
        self.ret = None
        self.end_time = None
        self.violations = []
        self.bsnaps = {}           # t -> boundary snapshot (dict)
        self.notes = {}            # monitor -> counters (nontrivial etc.)
        self.trace_tail = []

    def violate(self, clause, cause, detail=None, t=None):
        self.violations.append(Violation(
            clause=clause, cause=cause, detail=detail,
            t=self.env.now if t is None else t, e=self.probe.n_events))

    def note(self, key, inc=1):
        self.notes[key] = self.notes.get(key, 0) + inc


def snapshot(sim):
    """Primary state only (no usage counters interpretation)."""
    cl = sim.cluster
    res = cl._clusters['default']['resources']
    tasks = cl._clusters['default']['tasks']
    hot = sim.buffer.hot[0]
    cold = sim.buffer.cold[0]
    tel = sim.instrument
    sch = sim.scheduler
    nm = lambda o: None if o is None else o.name
    return {
        "t": sim.env.now,
        "available": [m.id for m in res['available']],
        "ingest": [m.id for m in res['ingest']],
        "occupied": [m.id for m in res['occupied']],
        "idle": {k: [m.id for m in v] for k, v in res['idle'].items()},
        "running": [t.id for t in tasks['running']],
        "finished": {t.id: v for t, v in tasks['finished'].items()},
        "usage": dict(cl._clusters['default']['usage_data']),
        "nprov": cl.num_provisioned_obs,
        "queue": [o.name for o in sch.observation_queue],
        "prov_ingest": sch.provision_ingest,
        "sched_status": sch.schedule_status.value,
        "delay_offset": sch.delay_offset,
        "tel_use": tel.telescope_use,
        "tel_status": tel.telescope_status,
        "obs": [(o.name, o.status.value, o.ast, o.total_data_size)
                for o in tel.observations],
        "hot_free": hot.current_capacity,
        "hot_stored": [o.name for o in hot.observations['stored']],
        "hot_transfer": nm(hot.observations['transfer']),
        "hot_scheduled": [o.name for o in hot.observations['scheduled']],
        "hot_finished": [o.name for o in hot.observations['finished']],
        "cold_free": cold.current_capacity,
        "cold_stored": [o.name for o in cold.observations['stored']],
        "cold_transfer": nm(cold.observations['transfer']),
        "dleft": sim.buffer._data_left_to_transfer,
        "stored_times": list(sim.buffer.stored_times),
    }


class QueueLog:
    """Observations handed to the scheduler's allocation loop and not yet
    dropped from the hot buffer by mark_observation_finished, read off the
    probe's call log (independent of the scheduler's own list object)."""

    def __init__(self):
        self.n, self.q = 0, []

    def update(self, probe):
        calls = probe.calls
        while self.n < len(calls):
            c = calls[self.n]
            self.n += 1
            # (by object, not by name: a plan may repeat a name)
            if c["kind"] == "alloc_handed":
                if (c["obs"], c.get("oid")) not in self.q:
                    self.q.append((c["obs"], c.get("oid")))
            elif c["kind"] == "hot_remove" and c["ret"]:
                if (c["obs"], c.get("oid")) in self.q:
                    self.q.remove((c["obs"], c.get("oid")))
        return [n for n, _ in self.q]


def freeze(x):
    if isinstance(x, dict):
        return tuple(sorted((k, freeze(v)) for k, v in x.items()))
    if isinstance(x, (list, tuple)):
        return tuple(freeze(v) for v in x)
    return x


def _light_monitor_run(monitor):
    def run():
        while True:
            yield monitor.env.timeout(1)
    return run


def build(case, chooser=None, horizon=None, light=True, tie=False):
    """Fresh real Simulation for ``case`` under a fresh probe."""
    probe = Probe(chooser, horizon)
    probe.tie = tie
    env = ProbeEnvironment(probe)
    cfg = world.materialise(case)
    hm = case.get("hashmap")
    seams.set_hash_order(hm)
    # log level of the library's loggers is part of the environment: set for
    # every run (NOTSET unless the case asks for one), nothing is printed
    import logging
    lg = logging.getLogger("topsim")
    if not lg.handlers:
        lg.addHandler(logging.NullHandler())
    lg.propagate = False
    lg.setLevel(getattr(logging, case.get("loglevel") or "NOTSET"))
    planning, sched = seams.make_algorithms(case, probe)
    with contextlib.redirect_stdout(_DEVNULL):
        sim = Simulation(env, cfg, Telescope, planning_model=planning,
                         planning_algorithm=None, scheduling=sched,
                         delay=None, timestamp=0)
    probe.sim = sim
    seams._CUR["probe"] = probe
    if light == "events":
        # real Monitor.run and real collate_events (the event log is the
        # real one); only the per-step actor dataframes are left out
        import pandas as pd
        sim.monitor.collate_actor_dataframes = lambda: pd.DataFrame()
        sim._generate_final_task_data = lambda: None
    elif light:
        sim.monitor.run = _light_monitor_run(sim.monitor)
        sim.monitor.collate_events = lambda: None
        sim._generate_final_task_data = lambda: None
    run = Run(case, sim, env, probe)
    run.light = light
    return run


def task_table(sim):
    """{task id: (ast, aft)} from the cluster's primary 'finished' map."""
    fin = sim.cluster._clusters['default']['tasks']['finished']
    return {t.id: (t.ast, t.aft, bool(v)) for t, v in fin.items()}


def execute(case, monitors=(), prefix=(), horizon=None, light=True,
            tie=False, keep_snaps=False):
    """Run ``case`` to completion (or horizon) with ``monitors`` attached.

    ``case['pauses']`` (list of ints): start(k0); resume(k1) ...; the last
    element may be None meaning "then run to the natural end is NOT
    supported by topsim after a pause" -- so pause histories always end with
    an explicit time.
    """
    before = case.get("before")
    if before:
        # earlier simulations of the same process history (shared policy
        # objects via alg["reuse"]); they run unobserved and without choices
        seams.REUSE.clear()
        for b in before:
            try:
                execute({k: v for k, v in b.items() if k != "before"}, (), (),
                        horizon, True, False)
            except HarnessError:
                pass
    chooser = Chooser(prefix)
    run = build(case, chooser, horizon, light, tie)
    sim, env, probe = run.sim, run.env, run.probe

    qlog = QueueLog()

    def on_boundary(t):
        if keep_snaps:
            run.bsnaps[t] = snapshot(sim)
            run.bsnaps[t]["queue_log"] = qlog.update(probe)
        for m in monitors:
            f = getattr(m, "on_boundary", None)
            if f:
                f(run, t)

    def on_event():
        for m in ev_monitors:
            m.on_event(run)

    ev_monitors = [m for m in monitors if hasattr(m, "on_event")]
    probe.boundary_cbs.append(on_boundary)
    if ev_monitors:
        probe.event_cbs.append(on_event)
    for m in monitors:
        f = getattr(m, "start", None)
        if f:
            f(run)
    pauses = case.get("pauses")
    try:
        with contextlib.redirect_stdout(_DEVNULL):
            if pauses:
                run.ret = sim.start(runtime=pauses[0])
                for u in pauses[1:]:
                    for m in monitors:
                        f = getattr(m, "on_pause", None)
                        if f:
                            f(run, env.now)
                    sim.resume(until=u)
            else:
                run.ret = sim.start(runtime=case.get("runtime", -1))
        run.outcome = "returned"
    except HorizonReached:
        run.outcome = "horizon"
    except HarnessError:
        raise
    except Exception as e:               # the implementation raised
        run.outcome = "exception"
        run.exc = seams.exception_site(e)
        run.exc_obj = e
    run.end_time = env.now
    run.choices = chooser.choices
    run.points = chooser.points
    for m in monitors:
        f = getattr(m, "finish", None)
        if f:
            f(run)
    probe.done = True
    seams._CUR["probe"] = None
    seams.set_hash_order(None)
    if before:
        seams.REUSE.clear()
    return run


def prelude(payload):
    """Run the payload's case once and discard the result (used to reproduce
    violations that only occur after an earlier simulation in the process)."""
    case = {k: v for k, v in payload["case"].items() if k != "pauses"}
    try:
        execute(case, (), tuple(payload.get("prefix", ()) or ()),
                payload.get("horizon") or 400,
                payload.get("light", True) is not False, False)
    except HarnessError:
        pass
