"""Oracle monitors for simulation trajectories (engine E1).

Each monitor is a small object with optional hooks
    start(run) / on_event(run) / on_boundary(run, t) / finish(run)
and reports through run.violate(clause, cause, detail).  A *cause* is a narrow,
observation-derived string: it is what known-findings are matched on.

Ground truth is taken from primary state (pool lists, running list, buffers'
free space), from the activation log written by the wrappers in seams.py, and
from the case description -- never from the counters/queries under test.
"""
import math

from . import world
from .run import snapshot

EPS = 1e-9


# --------------------------------------------------------------------------
# helpers
# --------------------------------------------------------------------------

def case_info(case):
    cfg = case["cfg"]
    f = world.unit_factor(cfg.get("timestep", "seconds"))
    info = {"f": f, "mids": world.machine_ids(cfg),
            "M": len(cfg["machines"]),
            "cpu": {}, "bw": {}, "obs": {}, "order": []}
    for mid, (cpu, bw) in zip(info["mids"], cfg["machines"]):
        info["cpu"][mid] = cpu * f
        info["bw"][mid] = bw * f
    for o in cfg["obs"]:
        wf = case["wfs"][o["wf"]]
        info["obs"][o["name"]] = {
            "est": o["start"] / f, "dur": o["dur"] / f,
            "rate": round(o["rate"] * f), "demand": o["demand"],
            "ingest": o["ingest"], "size": round(o["rate"] * f) * o["dur"] / f,
            "wf": wf, "preds": world.wf_preds(wf),
            "nodes": {str(n[0]): (n[1], (n[2] if len(n) > 2 and n[2]
                                         is not None else 0))
                      for n in wf["nodes"]},
            "vol": {(str(u), str(v)): vol for u, v, vol in wf["edges"]},
        }
        info["order"].append(o["name"])
    return info


def parse_tid(tid):
    """-> (obs, kind, node) ; kind in {'ingest','wf'}"""
    parts = str(tid).split("_")
    if len(parts) >= 3 and parts[1] == "ingest":
        return parts[0], "ingest", parts[2]
    return parts[0], "wf", parts[-1]


def pools(sim):
    res = sim.cluster._clusters['default']['resources']
    return res


# --------------------------------------------------------------------------
# C01
# --------------------------------------------------------------------------

class MachineExclusive:
    """C01: at most one live task activation per machine, after every event."""
    pid = "C01"

    def start(self, run):
        self.seen = set()

    def on_event(self, run):
        p = run.probe
        for mid, recs in p.live_dw.items():
            if len(recs) > 1:
                key = ("dw", mid, tuple(r["task"] for r in recs))
                if key not in self.seen:
                    self.seen.add(key)
                    kinds = sorted(parse_tid(r["task"])[1] for r in recs)
                    run.violate("C01.one-task-per-machine",
                                "two-live-do_work:%s" % "+".join(kinds),
                                {"machine": mid,
                                 "tasks": [r["task"] for r in recs]})
        for mid, recs in p.live_alloc.items():
            if len(recs) > 1:
                key = ("al", mid, tuple(r["task"] for r in recs))
                if key not in self.seen:
                    self.seen.add(key)
                    kinds = sorted(parse_tid(r["task"])[1] for r in recs)
                    run.violate("C01.one-holder-per-machine",
                                "two-live-allocations:%s" % "+".join(kinds),
                                {"machine": mid,
                                 "tasks": [r["task"] for r in recs]})
        res = pools(run.sim)
        for mid, recs in p.live_dw.items():
            if recs:
                m = recs[0]
                inpool = any(x.id == mid for x in res['ingest']) or \
                    any(x.id == mid for x in res['occupied'])
                if not inpool:
                    key = ("pool", mid, recs[0]["task"])
                    if key not in self.seen:
                        self.seen.add(key)
                        run.violate(
                            "C01.executing-machine-is-busy",
                            "executing-on-free-machine:%s"
                            % parse_tid(recs[0]["task"])[1],
                            {"machine": mid, "task": recs[0]["task"]})

    def finish(self, run):
        p = run.probe
        # recorded execution intervals [ast, aft) on one machine never overlap
        per = {}
        for a in p.acts:
            if a["kind"] == "do_work" and a["t1"] is not None \
                    and not a["exc"] and a["ast"] is not None \
                    and a["aft"] is not None and a["aft"] >= 0:
                per.setdefault(a["machine"], []).append(
                    (a["ast"], a["aft"], a["task"]))
        for mid, iv in per.items():
            iv.sort()
            for (s1, e1, t1), (s2, e2, t2) in zip(iv, iv[1:]):
                if s2 + EPS < e1:
                    kinds = sorted((parse_tid(t1)[1], parse_tid(t2)[1]))
                    run.violate("C01.recorded-intervals-disjoint",
                                "recorded-runs-overlap:%s" % "+".join(kinds),
                                {"machine": mid, "first": [t1, s1, e1],
                                 "second": [t2, s2, e2]})
                    break
        # non-triviality: a proposal was skipped, or two allocation loops were
        # live at once, or the adversary injected something
        props = sum(len(a["proposals"]) for a in p.alg_log)
        live_loops = 0
        ats = [a for a in p.acts if a["kind"] == "alloc_tasks"]
        for i, a in enumerate(ats):
            for b in ats[i + 1:]:
                a1 = a["t1"] if a["t1"] is not None else 1e18
                if b["t0"] < a1:
                    live_loops += 1
        adv = getattr(p, "adversary", None)
        if adv is not None and adv.injected:
            run.note("nontrivial")
            run.note("adv:" + adv.injected[0]["label"])
        elif live_loops:
            run.note("nontrivial")
        # overlapping ingest and workflow
        if any(a["kind"] == "alloc" and a["ingest"] for a in p.acts) and \
                any(a["kind"] == "alloc" and not a["ingest"] for a in p.acts):
            run.note("mixed")


# --------------------------------------------------------------------------
# C02
# --------------------------------------------------------------------------

class PoolPartition:
    """C02 along trajectories: partition after every event, true counters at
    every boundary, everything returned at the end of a completed run."""
    pid = "C02"

    def start(self, run):
        self.mids = sorted(world.machine_ids(run.case["cfg"]))
        self.bad = set()

    def on_event(self, run):
        res = pools(run.sim)
        allm = [m.id for m in res['available']] + \
            [m.id for m in res['ingest']] + [m.id for m in res['occupied']]
        for v in res['idle'].values():
            allm.extend(m.id for m in v)
        if sorted(allm) != self.mids:
            lost = [m for m in self.mids if m not in allm]
            dup = sorted({m for m in allm if allm.count(m) > 1})
            cause = "lost" if lost else "duplicated"
            if cause not in self.bad:
                self.bad.add(cause)
                last = run.probe.acts[-1]["kind"] if run.probe.acts else "?"
                run.violate("C02.partition", "machine-%s" % cause,
                            {"lost": lost, "dup": dup, "pools": {
                                k: ([m.id for m in v] if k != 'idle' else
                                    {a: [m.id for m in b]
                                     for a, b in v.items()})
                                for k, v in res.items() if k != 'total'}})

    def on_boundary(self, run, t):
        cl = run.sim.cluster._clusters['default']
        res, tasks, u = cl['resources'], cl['tasks'], cl['usage_data']
        M = len(self.mids)
        truth_free = M - len(res['ingest']) - len(res['occupied'])
        if u['available'] != truth_free and "free" not in self.bad:
            self.bad.add("free")
            run.violate("C02.count-free",
                        "reported-%s" % ("more" if u['available'] > truth_free
                                         else "fewer"),
                        {"reported": u['available'], "true": truth_free}, t)
        if u['running_tasks'] != len(tasks['running']) \
                and "run" not in self.bad:
            self.bad.add("run")
            run.violate("C02.count-running", "mismatch",
                        {"reported": u['running_tasks'],
                         "true": len(tasks['running'])}, t)
        nfin = sum(1 for v in tasks['finished'].values() if v)
        if u['finished_tasks'] != nfin and "fin" not in self.bad:
            self.bad.add("fin")
            run.violate("C02.count-finished", "mismatch",
                        {"reported": u['finished_tasks'], "true": nfin}, t)

    def finish(self, run):
        if run.outcome != "returned" or run.case.get("pauses") \
                or run.case.get("runtime", -1) > 0:
            return
        res = pools(run.sim)
        if sorted(m.id for m in res['available']) != self.mids:
            run.violate("C02.end-all-available", "machines-not-returned",
                        {"available": [m.id for m in res['available']]})
        if res['idle'] or run.sim.cluster.num_provisioned_obs != 0:
            run.violate("C02.end-no-reservation",
                        "reservation-outstanding" if res['idle']
                        else "reservation-counter-nonzero",
                        {"idle": {k: [m.id for m in v]
                                  for k, v in res['idle'].items()},
                         "nprov": run.sim.cluster.num_provisioned_obs})


# --------------------------------------------------------------------------
# C03
# --------------------------------------------------------------------------

class Precedence:
    pid = "C03"

    def finish(self, run):
        info = case_info(run.case)
        p = run.probe
        dw = {}
        al = {}
        for a in p.acts:
            if a["kind"] == "do_work":
                dw.setdefault(a["task"], []).append(a)
            elif a["kind"] == "alloc" and not a["ingest"]:
                al.setdefault(a["task"], []).append(a)
        for tid, recs in dw.items():
            obs, kind, node = parse_tid(tid)
            if kind != "wf" or obs not in info["obs"]:
                continue
            r = recs[0]
            t_obj = r["task_obj"]
            ast = t_obj.ast if r["ast"] is None else r["ast"]
            if ast is None or ast < 0:
                continue          # never reached its start (run was cut)
            oi = info["obs"][obs]
            prefix = tid[:len(tid) - len(node)]
            A = al[tid][0]["t0"] if tid in al else r["t0"]
            W = A
            remote = 0
            for pn in oi["preds"][int(node)]:
                ptid = prefix + str(pn)
                pre = dw.get(ptid)
                paft = pre[0]["task_obj"].aft if pre else -1
                if not pre or paft is None or paft < 0:
                    run.violate("C03.pred-finished", "predecessor-never-ran",
                                {"task": tid, "pred": ptid})
                    continue
                if ast + EPS < paft:
                    run.violate("C03.pred-finished",
                                "started-before-predecessor-finished",
                                {"task": tid, "ast": ast, "pred": ptid,
                                 "pred_aft": paft})
                if pre[0]["machine"] != r["machine"]:
                    remote += 1
                    vol = oi["vol"][(str(pn), node)]
                    W = max(W, paft + vol / info["bw"][r["machine"]])
            if remote:
                run.note("nontrivial")
                run.note("remote-pred")
            elif oi["preds"][int(node)]:
                run.note("nontrivial")
            if abs(ast - W) > EPS:
                run.violate(
                    "C03.start-time",
                    "started-%s-than-allocation-and-arrivals"
                    % ("earlier" if ast < W else "later"),
                    {"task": tid, "ast": ast, "expected": W, "alloc": A,
                     "machine": r["machine"]})


# --------------------------------------------------------------------------
# C04
# --------------------------------------------------------------------------

class ExactlyOnce:
    pid = "C04"

    def start(self, run):
        self.status_seq = {}

    def on_event(self, run):
        for o in run.sim.instrument.observations:
            s = self.status_seq.setdefault(o.name, ["WAITING"])
            v = o.status.value
            if s[-1] != v:
                s.append(v)

    def finish(self, run):
        if run.outcome != "returned" or run.case.get("pauses") \
                or run.case.get("runtime", -1) > 0:
            # a crash on an illegal proposal is allowed ("rejected with an
            # error"); still nothing may have run twice up to that point
            self._no_double(run)
            return
        info = case_info(run.case)
        p = run.probe
        self._no_double(run)
        counts = {}
        for a in p.acts:
            if a["kind"] == "do_work":
                counts[a["task"]] = counts.get(a["task"], 0) + 1
        expected = set()
        begun = {}
        for c in p.calls:
            if c["kind"] == "begin_obs":
                begun.setdefault(c["obs"], []).append(c["t"])
        for name, oi in info["obs"].items():
            seq = self.status_seq.get(name, ["WAITING"])
            if seq != ["WAITING", "RUNNING", "FINISHED"] \
                    or len(begun.get(name, [])) != 1:
                run.violate("C04.observed-once", "status-sequence",
                            {"obs": name, "seq": seq,
                             "begun": begun.get(name, [])})
                continue
            for i in range(oi["ingest"]):
                expected.add("%s_ingest_t%d" % (name, i))
        # workflow task ids carry the planning clock; find them by obs+node
        wf_seen = {}
        for tid in counts:
            obs, kind, node = parse_tid(tid)
            if kind == "wf":
                wf_seen.setdefault((obs, node), []).append(tid)
        for name, oi in info["obs"].items():
            for node in oi["nodes"]:
                tids = wf_seen.get((name, node), [])
                if len(tids) != 1 or counts[tids[0]] != 1:
                    run.violate(
                        "C04.task-once",
                        "workflow-task-ran-%s" % (
                            "never" if not tids else "more-than-once"),
                        {"obs": name, "node": node, "tids": tids})
        for tid in expected:
            if counts.get(tid, 0) != 1:
                run.violate("C04.task-once", "ingest-task-ran-%s" % (
                    "never" if not counts.get(tid) else "more-than-once"),
                    {"task": tid, "count": counts.get(tid, 0)})
        for tid in counts:
            obs, kind, node = parse_tid(tid)
            ok = (tid in expected) if kind == "ingest" else (
                obs in info["obs"] and node in info["obs"][obs]["nodes"])
            if not ok:
                run.violate("C04.task-once", "unexpected-task",
                            {"task": tid})
        # quiescence
        s = snapshot(run.sim)
        cfg = run.case["cfg"]
        q = []
        if s["running"] or any(p.live_dw.values()):
            q.append("task-running")
        from .run import QueueLog
        if s["queue"] or QueueLog().update(p):
            # (also by the call log: handed to the allocation loop and not
            # yet dropped from the hot buffer)
            q.append("observation-queued")
        if s["idle"]:
            q.append("reservation-held")
        if sorted(s["available"]) != sorted(info["mids"]):
            q.append("machines-not-available")
        if s["hot_free"] != cfg["hot"][0]:
            q.append("hot-not-empty")
        if s["cold_free"] != cfg["cold"][0]:
            q.append("cold-not-empty")
        if q:
            run.violate("C04.quiescent", "+".join(q),
                        {k: s[k] for k in ("running", "queue", "idle",
                                           "available", "hot_free",
                                           "cold_free")})
        # task table: one row per executed task
        tt = run.task_rows if hasattr(run, "task_rows") else None
        fin = run.sim.cluster._clusters['default']['tasks']['finished']
        ids = [t.id for t in fin]
        if sorted(ids) != sorted(counts) or len(set(ids)) != len(ids):
            run.violate("C04.task-table", "rows-differ-from-executed-tasks",
                        {"rows": sorted(ids), "executed": sorted(counts)})
        if tt is not None and sorted(tt) != sorted(counts):
            run.violate("C04.task-table", "returned-table-rows-differ",
                        {"rows": sorted(tt), "executed": sorted(counts)})
        if len(info["obs"]) > 1:
            run.note("nontrivial")

    def _no_double(self, run):
        counts = {}
        for a in run.probe.acts:
            if a["kind"] == "do_work":
                counts[a["task"]] = counts.get(a["task"], 0) + 1
        for tid, c in counts.items():
            if c > 1:
                run.violate("C04.task-once", "%s-task-ran-more-than-once"
                            % ("ingest" if parse_tid(tid)[1] == "ingest"
                               else "workflow"), {"task": tid, "count": c})


# --------------------------------------------------------------------------
# C05
# --------------------------------------------------------------------------

def stuck_class(run):
    s = snapshot(run.sim)
    info = case_info(run.case)
    cls = set()
    now = s["t"]
    for name, status, ast, tds in s["obs"]:
        oi = info["obs"][name]
        if status == "WAITING" and oi["est"] <= now:
            if s["prov_ingest"] > len(s["ingest"]):
                cls.add("ingest-reservation-leaked")
            elif s["hot_free"] - oi["size"] < 0:
                cls.add("waiting-hot-buffer-full")
            elif s["cold_free"] - oi["size"] < 0:
                cls.add("waiting-cold-buffer-full")
            elif len(s["available"]) < oi["ingest"]:
                cls.add("waiting-no-free-machines")
            else:
                cls.add("waiting-obs-never-admitted")
        elif status == "RUNNING":
            cls.add("obs-never-finishes-observing")
    # An observation whose own volume exceeds the tiering threshold can never
    # be handed to the scheduler (known finding): classify that first.
    thr = getattr(run.sim.buffer, "threshold", 0.6)
    cap = run.case["cfg"]["hot"][0]
    unprocessed = list(s["cold_stored"]) + list(s["hot_stored"]) + \
        [x for x in (s["cold_transfer"], s["hot_transfer"]) if x]
    if any(info["obs"][n]["size"] / cap > thr for n in unprocessed):
        return "stuck:observation-larger-than-tiering-threshold"
    if s["cold_stored"] or s["cold_transfer"]:
        cls.add("obs-stranded-in-cold")
    if s["hot_stored"]:
        cls.add("stored-obs-never-scheduled")
    if s["queue"]:
        if s["running"]:
            cls.add("task-never-completes")
        elif run.case.get("alg", {}).get("kind") in ("batch", "advbatch") \
                and any(q not in s["idle"] for q in s["queue"]):
            cls.add("queued-workflow-never-provisioned")
        else:
            cls.add("queued-task-never-allocated")
    elif s["running"]:
        cls.add("task-never-completes")
    if not cls:
        cls.add("not-finished-but-nothing-pending")
    return "stuck:" + "+".join(sorted(cls))


class Terminates:
    pid = "C05"

    def finish(self, run):
        if not world.feasible(run.case):
            return
        if run.outcome == "exception":
            t, site, msg = run.exc
            run.violate("C05.no-exception", "crash:%s@%s" % (t, site),
                        {"type": t, "site": site, "msg": msg,
                         "time": run.end_time})
        elif run.outcome == "horizon":
            run.violate("C05.terminates", stuck_class(run),
                        {"horizon": run.probe.horizon,
                         "state": {k: v for k, v in snapshot(run.sim).items()
                                   if k not in ("finished", "usage")}})
        run.note("nontrivial")


# --------------------------------------------------------------------------
# C06 (trajectory part)
# --------------------------------------------------------------------------

class Runtime:
    pid = "C06"

    def finish(self, run):
        info = case_info(run.case)
        p = run.probe
        added = {}
        for tid, nominal, d in p.delay_log:
            added[tid] = added.get(tid, 0) + d
        rel = {}
        for a in p.acts:
            if a["kind"] == "alloc" and a["t1"] is not None \
                    and a["exc"] is None:
                rel[a["task"]] = a
        for a in p.acts:
            if a["kind"] != "do_work" or a["t1"] is None or a["exc"]:
                continue
            tid = a["task"]
            obs, kind, node = parse_tid(tid)
            if obs not in info["obs"]:
                continue
            oi = info["obs"][obs]
            # the *recorded* times are what the task table will show: read
            # them from the task at the end of the run, not at the moment the
            # task body ended (something may rewrite them afterwards)
            rel_done = rel.get(tid)
            if rel_done is None and run.outcome != "returned":
                ast, aft = a["ast"], a["aft"]
            else:
                ast, aft = a["task_obj"].ast, a["task_obj"].aft
                if (ast, aft) != (a["ast"], a["aft"]):
                    run.note("recorded-times-rewritten-after-task-end")
            if kind == "ingest":
                R = oi["dur"]
                what = "ingest"
            else:
                comp, data = oi["nodes"][node]
                mid = a["machine"]
                nominal = max(int(comp / info["cpu"][mid]),
                              int(data / info["bw"][mid]))
                R = max(1, nominal + added.get(tid, 0))
                what = "nominal-runtime=%s" % (
                    "0" if nominal == 0 else "1" if nominal == 1 else
                    "2" if nominal == 2 else ">=3")
            if abs((aft - ast) - R) > EPS:
                run.violate("C06.recorded-runtime",
                            "%s:%s" % (what, "longer" if aft - ast > R
                                       else "shorter"),
                            {"task": tid, "ast": ast, "aft": aft,
                             "expected": R, "machine": a["machine"]})
            r = rel.get(tid)
            if r is not None and float(ast).is_integer():
                held = r["t1"] - ast
                if abs(held - R) > EPS:
                    run.violate(
                        "C06.occupancy", "%s:held-%s" % (
                            what if kind != "ingest" else
                            "ingest-duration%s" % (
                                ">=3" if R >= 3 else "<3"),
                            "longer" if held > R else "shorter"),
                        {"task": tid, "ast": ast, "released": r["t1"],
                         "expected": R})
            run.note("nontrivial")


# --------------------------------------------------------------------------
# C07
# --------------------------------------------------------------------------

class BufferConservation:
    pid = "C07"

    def start(self, run):
        self.info = case_info(run.case)
        self.cap_hot = run.case["cfg"]["hot"][0]
        self.cap_cold = run.case["cfg"]["cold"][0]
        self.flag = set()
        self.maxres = 0
        self.rm_i = 0

    def _freed_at_completion(self, run):
        """the data is freed WHEN THE WORKFLOW COMPLETES: at the release no
        task of that workflow may still be executing or not yet started"""
        p = run.probe
        calls = p.calls
        while self.rm_i < len(calls):
            c = calls[self.rm_i]
            self.rm_i += 1
            if c["kind"] != "hot_remove" or not c["ret"]:
                continue
            name = c["obs"]
            oi = self.info["obs"].get(name)
            if oi is None or ("early", name) in self.flag:
                continue
            live = [r["task"] for recs in p.live_dw.values() for r in recs
                    if parse_tid(r["task"])[0] == name
                    and parse_tid(r["task"])[1] == "wf"]
            started = {parse_tid(a["task"])[2] for a in p.acts
                       if a["kind"] == "do_work"
                       and parse_tid(a["task"])[0] == name
                       and parse_tid(a["task"])[1] == "wf"}
            missing = sorted(set(oi["nodes"]) - started)
            if live or missing:
                self.flag.add(("early", name))
                run.violate("C07.freed-equals-volume",
                            "freed-before-the-workflow-completed",
                            {"obs": name, "still_executing": live,
                             "never_started": missing})

    def on_event(self, run):
        self._freed_at_completion(run)
        hot = run.sim.buffer.hot[0]
        cold = run.sim.buffer.cold[0]
        for nm, b, cap in (("hot", hot, self.cap_hot),
                           ("cold", cold, self.cap_cold)):
            if b.current_capacity < -EPS and (nm, "neg") not in self.flag:
                self.flag.add((nm, "neg"))
                cause = "%s-free-below-zero" % nm
                if nm == "hot" and self._return_overlaps_ingest(run):
                    # known finding: a cold->hot return and the ingest of a
                    # newly admitted observation ran at the same time and
                    # neither accounted for the other
                    cause += ":cold-return-overlaps-ingest"
                run.violate("C07.nonnegative", cause,
                            {"free": b.current_capacity})
            if b.current_capacity > cap + EPS \
                    and (nm, "over") not in self.flag:
                self.flag.add((nm, "over"))
                run.violate("C07.within-capacity",
                            "%s-free-above-capacity" % nm,
                            {"free": b.current_capacity, "cap": cap})

    def _return_overlaps_ingest(self, run):
        now = run.env.now
        rets = [a for a in run.probe.acts if a["kind"] == "c2h"
                and a["ret"] is not False]
        ings = [a for a in run.probe.acts if a["kind"] == "ingest_stream"]
        for r in rets:
            r1 = now if r["t1"] is None else r["t1"]
            for g in ings:
                g1 = now if g["t1"] is None else g["t1"]
                if r["t0"] <= g1 and g["t0"] <= r1:
                    return True
        return False

    def _ledger(self, run, t):
        """sum over resident observations of what they have deposited by the
        beginning of step t"""
        begun, removed = {}, set()
        for c in run.probe.calls:
            if c["kind"] == "begin_obs":
                begun.setdefault(c["obs"], c["t"])
            elif c["kind"] == "hot_remove" and c["ret"]:
                removed.add(c["obs"])
        tot = 0
        nres = 0
        for name, ast in begun.items():
            if name in removed:
                continue
            oi = self.info["obs"][name]
            steps = min(max(t - ast, 0), oi["dur"])
            tot += oi["rate"] * steps
            if steps > 0:
                nres += 1
        return tot, nres

    def on_boundary(self, run, t):
        hot = run.sim.buffer.hot[0]
        cold = run.sim.buffer.cold[0]
        used = (self.cap_hot - hot.current_capacity) + \
            (self.cap_cold - cold.current_capacity)
        want, nres = self._ledger(run, t)
        self.maxres = max(self.maxres, nres)
        if abs(used - want) > EPS and "ledger" not in self.flag:
            self.flag.add("ledger")
            run.violate("C07.used-equals-resident-data",
                        "used-%s-than-resident" % (
                            "more" if used > want else "less"),
                        {"used": used, "resident": want,
                         "hot_free": hot.current_capacity,
                         "cold_free": cold.current_capacity}, t)

    def finish(self, run):
        info = self.info
        p = run.probe
        begun = {}
        for c in p.calls:
            if c["kind"] == "begin_obs":
                begun.setdefault(c["obs"], c["t"])
        # deposits: per instant, multiset of rates == rates of active obs
        dep = {}
        for c in p.calls:
            if c["kind"] == "deposit" and c["raised"] is None:
                dep.setdefault(c["t"], []).append(c["rate"])
        end = run.end_time
        times = set(dep)
        for name, ast in begun.items():
            oi = info["obs"][name]
            k = 0
            while k < oi["dur"] and ast + k < end:
                times.add(ast + k)
                k += 1
        for t in sorted(times):
            want = sorted(info["obs"][n]["rate"] for n, a in begun.items()
                          if a <= t < a + info["obs"][n]["dur"])
            got = sorted(dep.get(t, []))
            if run.outcome != "returned" and t >= end - 1:
                continue
            if want != got:
                run.violate("C07.deposit-rate-per-step",
                            "deposits-%s" % ("missing" if len(got) < len(want)
                                             else "extra" if len(got) >
                                             len(want) else "wrong-amount"),
                            {"t": t, "want": want, "got": got})
                break
        for c in p.calls:
            if c["kind"] == "hot_remove" and c["ret"]:
                oi = info["obs"][c["obs"]]
                if abs(c["freed"] - oi["size"]) > EPS:
                    run.violate("C07.freed-equals-volume",
                                "freed-%s" % ("less" if c["freed"] <
                                              oi["size"] else "more"),
                                {"obs": c["obs"], "freed": c["freed"],
                                 "size": oi["size"]})
        if run.outcome == "returned" and not run.case.get("pauses") \
                and run.case.get("runtime", -1) <= 0:
            hot = run.sim.buffer.hot[0]
            cold = run.sim.buffer.cold[0]
            if hot.current_capacity != self.cap_hot \
                    or cold.current_capacity != self.cap_cold:
                run.violate("C07.end-full-free", "buffers-not-emptied",
                            {"hot": hot.current_capacity,
                             "cold": cold.current_capacity})
        if self.maxres >= 2:
            run.note("nontrivial")
            run.note("two-resident")
        elif begun:
            run.note("nontrivial")


# --------------------------------------------------------------------------
# C08
# --------------------------------------------------------------------------

class Admission:
    pid = "C08"

    def start(self, run):
        self.info = case_info(run.case)
        self.cfg = run.case["cfg"]
        self.flag = set()
        self.status_seq = {}
        self.ncalls = 0
        self.pending = []         # begun, prov_ingest not yet entered
        self.nprov = 0
        self.ontime_expect = {}
        self.loaded_start = False
        self.begun_all = {}
        # repeated names (several runs of one pipeline; same attributes,
        # different planned starts): bookkeeping is per begin call; the
        # per-name clauses (status sequence, machines held, on time) are
        # judged only for names that occur once
        names = [o["name"] for o in self.cfg["obs"]]
        self.dups = {n for n in names if names.count(n) > 1}
        self.min_est = {}
        for o in self.cfg["obs"]:
            e = o["start"] / self.info["f"]
            self.min_est[o["name"]] = min(e, self.min_est.get(o["name"], e))

    def _scan_calls(self, run):
        """process begin_obs calls made since the last scan, at the state in
        which they were made (they are made by the telescope process; the
        scan happens right after that event)."""
        p = run.probe
        calls = p.calls
        while self.ncalls < len(calls):
            c = calls[self.ncalls]
            self.ncalls += 1
            if c["kind"] != "begin_obs":
                continue
            self._admit(run, c)

    def _admit(self, run, c):
        name, t = c["obs"], c["t"]
        oi = self.info["obs"][name]
        snap = self.bsnap
        # all begin_obs of instant t share the boundary snapshot of t; the
        # cumulative parts use what was begun earlier in the same instant.
        same = [x for x in self.begun_now if x[0] == t]
        # arrays freed earlier in the same telescope pass are legitimately
        # reusable: judge against the use at the moment of the start
        arrays_used = c["use_before"]
        ing_pending = sum(self.info["obs"][n]["ingest"] for _, n in same)
        self.begun_now.append((t, name))
        est = self.min_est[name] if name in self.dups else oi["est"]
        if t + EPS < est:
            run.violate("C08.not-before-planned-start", "started-early",
                        {"obs": name, "t": t, "est": est})
        if arrays_used + oi["demand"] > self.cfg["arrays"]:
            run.violate("C08.arrays-free", "arrays-overcommitted",
                        {"obs": name, "in_use": arrays_used,
                         "demand": oi["demand"]})
        if ing_pending + oi["ingest"] > len(snap["available"]):
            run.violate("C08.machines-free",
                        "admitted-without-free-machines:%s" % (
                            "same-instant-starts" if same else "single"),
                        {"obs": name, "available": snap["available"],
                         "pending": ing_pending, "demand": oi["ingest"]})
        if len(snap["ingest"]) + ing_pending + oi["ingest"] \
                > self.cfg["max_ingest"]:
            run.violate("C08.ingest-limit-at-start",
                        "admitted-above-ingest-limit:%s" % (
                            "same-instant-starts" if same else "single"),
                        {"obs": name, "on_ingest": snap["ingest"],
                         "pending": ing_pending, "demand": oi["ingest"]})
        # data still owed to observations that have already begun (earlier,
        # or earlier in this very instant) is not room
        owed = 0
        for (n2, _), t2 in self.begun_all.items():
            o2 = self.info["obs"][n2]
            done = o2["rate"] * min(max(t - t2, 0), o2["dur"])
            owed += o2["size"] - done
        self.begun_all[(name, len(self.begun_all))] = t
        if snap["hot_free"] - oi["size"] < -EPS:
            run.violate("C08.hot-room", "admitted-without-hot-room",
                        {"obs": name, "hot_free": snap["hot_free"],
                         "size": oi["size"]})
        elif snap["hot_free"] - owed - oi["size"] < -EPS:
            run.violate("C08.hot-room",
                        "admitted-into-room-owed-to-running-ingest:%s" % (
                            "same-instant-starts" if same else "overlap"),
                        {"obs": name, "hot_free": snap["hot_free"],
                         "owed": owed, "size": oi["size"]})
        if snap["cold_free"] - oi["size"] < -EPS:
            run.violate("C08.cold-room", "admitted-without-cold-room",
                        {"obs": name, "cold_free": snap["cold_free"],
                         "size": oi["size"]})
        loaded = (snap["occupied"] or snap["idle"] or snap["ingest"]
                  or snap["hot_free"] != self.cfg["hot"][0] or snap["queue"])
        if loaded:
            self.loaded_start = True

    def on_boundary(self, run, t):
        snap = run.bsnaps.get(t)
        if snap is None:
            snap = run.bsnaps[t] = snapshot(run.sim)
        self.bsnap = snap
        self.begun_now = []
        # (v) on time when completely idle
        due = [n for n, st, ast, _ in snap["obs"]
               if st == "WAITING" and self.info["obs"][n]["est"] <= t]
        if len(due) == 1 and self.info["obs"][due[0]]["est"] == t \
                and due[0] not in self.dups:
            idle = (snap["tel_use"] == 0 and not snap["ingest"]
                    and not snap["occupied"] and not snap["idle"]
                    and sorted(snap["available"]) == sorted(self.info["mids"])
                    and snap["hot_free"] == self.cfg["hot"][0]
                    and snap["cold_free"] == self.cfg["cold"][0]
                    and not snap["queue"] and not snap["running"]
                    and not snap["hot_stored"] and not snap["cold_stored"]
                    and not any(st == "RUNNING" for _, st, _, _
                                in snap["obs"]))
            if idle:
                self.ontime_expect[due[0]] = t

    def on_event(self, run):
        sim = run.sim
        tel = sim.instrument
        if tel.telescope_use > self.cfg["arrays"] \
                and "arrays" not in self.flag:
            self.flag.add("arrays")
            run.violate("C08.array-use-bounded", "array-use-above-total",
                        {"use": tel.telescope_use})
        if tel.telescope_use < 0 and "arrays-" not in self.flag:
            self.flag.add("arrays-")
            run.violate("C08.array-use-bounded", "array-use-negative",
                        {"use": tel.telescope_use})
        ning = len(pools(sim)['ingest'])
        if ning > self.cfg["max_ingest"] and "limit" not in self.flag:
            self.flag.add("limit")
            run.violate("C08.ingest-limit", "ingest-pool-above-limit",
                        {"on_ingest": ning})
        # a machine with a live ingest activation (call log) is held in the
        # ingest pool for as long as that activation lasts
        if "held" not in self.flag:
            ing_ids = None
            for mid, recs in run.probe.live_alloc.items():
                # (only strictly inside the observation's duration: the
                # order of releases within the final instant is free)
                if recs and any(r["ingest"] and sim.env.now + EPS < r["t0"]
                                + self.info["obs"][parse_tid(r["task"])[0]][
                                    "dur"] for r in recs):
                    if ing_ids is None:
                        ing_ids = {m.id for m in pools(sim)['ingest']}
                    if mid not in ing_ids:
                        self.flag.add("held")
                        run.violate("C08.ingest-demand-held",
                                    "machine-left-ingest-pool-during-ingest",
                                    {"machine": mid, "t": sim.env.now,
                                     "task": [r["task"] for r in recs
                                              if r["ingest"]][0]})
                        break
        for o in tel.observations:
            s = self.status_seq.setdefault(o.name, ["WAITING"])
            v = o.status.value
            if s[-1] != v:
                s.append(v)
        if self.ncalls < len(run.probe.calls):
            self._scan_calls(run)

    def finish(self, run):
        info = self.info
        p = run.probe
        self._scan_calls(run)
        begun = {}
        for c in p.calls:
            if c["kind"] == "begin_obs":
                begun.setdefault(c["obs"], []).append(c["t"])
        for name, t in self.ontime_expect.items():
            if begun.get(name, [None])[0] != t:
                run.violate("C08.on-time-when-idle", "late-start-when-idle",
                            {"obs": name, "est": t,
                             "started": begun.get(name)})
        for name, seq in self.status_seq.items():
            if name in self.dups:
                continue
            ok = seq == ["WAITING", "RUNNING", "FINISHED"][:len(seq)]
            if not ok or len(begun.get(name, [])) > 1:
                run.violate("C08.status-once", "status-sequence",
                            {"obs": name, "seq": seq,
                             "begun": begun.get(name)})
        # hold: exactly demand machines for exactly the duration
        by_obs = {}
        for a in p.acts:
            if a["kind"] == "alloc" and a["ingest"]:
                by_obs.setdefault(a["observation"], []).append(a)
        for name, ts in begun.items():
            if name in self.dups:
                continue
            oi = info["obs"][name]
            recs = by_obs.get(name, [])
            ast = ts[0]
            complete = [a for a in recs if a["t1"] is not None
                        and a["exc"] is None]
            ended = run.outcome == "returned" or (
                ast + oi["dur"] + 1 < run.end_time)
            if not ended:
                continue
            if len(recs) != oi["ingest"] or \
                    len({a["machine"] for a in recs}) != len(recs):
                run.violate("C08.ingest-demand-held", "wrong-machine-count",
                            {"obs": name, "machines": [a["machine"]
                                                       for a in recs],
                             "demand": oi["ingest"]})
            for a in complete:
                if a["t0"] != ast or abs((a["t1"] - a["t0"]) - oi["dur"]) \
                        > EPS:
                    run.violate(
                        "C08.ingest-held-for-duration",
                        "held-%s:duration%s" % (
                            "shorter" if a["t1"] - a["t0"] < oi["dur"]
                            else "longer" if a["t1"] - a["t0"] > oi["dur"]
                            else "late", ">=3" if oi["dur"] >= 3 else "<3"),
                        {"obs": name, "machine": a["machine"],
                         "from": a["t0"], "to": a["t1"], "ast": ast,
                         "dur": oi["dur"]})
                    break
        if begun:
            run.note("nontrivial")
        if self.loaded_start:
            run.note("loaded-start")
        if self.ontime_expect:
            run.note("idle-due")


# --------------------------------------------------------------------------
# C09
# --------------------------------------------------------------------------

class Reservations:
    pid = "C09"

    def start(self, run):
        alg = run.case["alg"]
        self.p = alg.get("p", 1)
        self.mn = alg.get("min", 1)
        self.split = alg.get("split")
        self.M = len(run.case["cfg"]["machines"])
        self.adversarial = alg["kind"].startswith("adv")
        self.live = {}           # name -> frozenset of machine ids (R0)
        self.flag = set()
        self.max_live = 0
        self.nalloc = 0
        self.ing_while_live = False

    def _v(self, run, clause, cause, detail):
        if (clause, cause) not in self.flag:
            self.flag.add((clause, cause))
            run.violate(clause, cause, detail)

    def on_event(self, run):
        sim = run.sim
        res = pools(sim)
        idle = res['idle']
        p = run.probe
        # allocations made in this event: must come from own reservation
        acts = p.acts
        while self.nalloc < len(acts):
            a = acts[self.nalloc]
            self.nalloc += 1
            if a["kind"] == "alloc" and not a["ingest"] \
                    and a["exc"] is None and not self.adversarial:
                want = "idle:%s" % a["observation"]
                if a["pool"] != want:
                    self._v(run, "C09.runs-on-own-reservation",
                            "allocated-from-%s" % (
                                "foreign-reservation"
                                if a["pool"].startswith("idle:")
                                else a["pool"]),
                            {"task": a["task"], "machine": a["machine"],
                             "pool": a["pool"]})
        # creations / removals
        for name in list(self.live):
            if name not in idle:
                R0 = self.live.pop(name)
                av = {m.id for m in res['available']}
                if not R0 <= av:
                    self._v(run, "C09.released-to-free-pool",
                            "reservation-not-returned",
                            {"obs": name, "reserved": sorted(R0),
                             "available": sorted(av)})
        for name, lst in idle.items():
            if name not in self.live:
                R0 = frozenset(m.id for m in lst)
                self.live[name] = R0
                if self.split:
                    lo, hi = self.split[name]
                else:
                    lo, hi = self.mn, self.M // self.p
                    lo = max(lo, 1)
                if not (lo <= len(R0) <= hi) or len(R0) < self.mn:
                    self._v(run, "C09.reservation-size",
                            "reservation-%s" % ("too-small" if len(R0) < lo
                                                or len(R0) < self.mn
                                                else "too-large"),
                            {"obs": name, "size": len(R0), "lo": lo,
                             "hi": hi})
        if len(self.live) > self.p:
            self._v(run, "C09.reservation-count", "too-many-reservations",
                    {"live": sorted(self.live), "partitions": self.p})
        self.max_live = max(self.max_live, len(self.live))
        # integrity of every live reservation
        ing = {m.id for m in res['ingest']}
        if ing and self.live:
            self.ing_while_live = True
        owners = {}
        for mid, recs in p.live_alloc.items():
            for r in recs:
                if not r["ingest"]:
                    owners.setdefault(mid, []).append(r["observation"])
        seen = {}
        for name, R0 in self.live.items():
            cur = {m.id for m in idle[name]}
            occ = {mid for mid, os_ in owners.items() if name in os_}
            if (cur | occ) != R0 and not (self.adversarial
                                          and R0 <= (cur | occ)):
                self._v(run, "C09.reservation-stable",
                        "reservation-%s-machine" % (
                            "lost" if R0 - (cur | occ) else "gained"),
                        {"obs": name, "reserved": sorted(R0),
                         "idle": sorted(cur), "running-own": sorted(occ)})
            if R0 & ing:
                self._v(run, "C09.exclusive", "reserved-machine-on-ingest",
                        {"obs": name, "machines": sorted(R0 & ing)})
            for mid in R0:
                for o in owners.get(mid, []):
                    if o != name:
                        self._v(run, "C09.exclusive",
                                "reserved-machine-runs-foreign-task",
                                {"obs": name, "machine": mid, "other": o})
                if mid in seen:
                    self._v(run, "C09.exclusive", "reservations-overlap",
                            {"a": seen[mid], "b": name, "machine": mid})
                seen[mid] = name

    def finish(self, run):
        if run.outcome == "returned" and self.live \
                and not run.case.get("pauses") \
                and run.case.get("runtime", -1) <= 0:
            run.violate("C09.released-at-end", "reservation-outlives-run",
                        {"live": sorted(self.live)})
        if self.max_live >= 2 or self.ing_while_live:
            run.note("nontrivial")
        if self.max_live >= 2:
            run.note("two-live")
        if self.ing_while_live:
            run.note("ingest-while-live")


# --------------------------------------------------------------------------
# C15 (simulation part)
# --------------------------------------------------------------------------

class DelayReported:
    pid = "C15"

    def start(self, run):
        self.done_at = {}        # delayed task -> time its allocation ended
        self.nacts = 0

    def on_boundary(self, run, t):
        st = run.sim.scheduler.schedule_status.value
        p = run.probe
        delayed = {tid for tid, _, d in p.delay_log if d > 0}
        for a in p.acts:
            if a["kind"] == "alloc" and a["task"] in delayed \
                    and a["t1"] is not None and a["exc"] is None:
                self.done_at.setdefault(a["task"], a["t1"])
        for tid, t1 in self.done_at.items():
            # the scheduler looks at finished tasks once per step, in the
            # observation's allocation loop: from the boundary after the
            # step that follows completion the status must say DELAYED
            if t >= t1 + 2 and st != "DELAYED":
                obs = parse_tid(tid)[0]
                if obs in run.bsnaps.get(t1 + 1, {}).get("queue", [obs]):
                    run.violate("C15.status-delayed",
                                "delayed-task-completed-but-status-ontime",
                                {"task": tid, "completed": t1, "t": t,
                                 "status": st}, t)
                    self.done_at = {}
                    return

    def finish(self, run):
        p = run.probe
        added = {}
        for tid, _, d in p.delay_log:
            added[tid] = added.get(tid, 0) + d
        for a in p.acts:
            if a["kind"] == "do_work" and a["t1"] is not None \
                    and not a["exc"] and added.get(a["task"], 0) > 0:
                if not a["task_obj"].delay_flag:
                    run.violate("C15.flagged", "delayed-task-not-flagged",
                                {"task": a["task"],
                                 "added": added[a["task"]]})
                run.note("nontrivial")


# --------------------------------------------------------------------------
# C17
# --------------------------------------------------------------------------

class PlannedMachine:
    pid = "C17"

    def finish(self, run):
        p = run.probe
        plan = getattr(p, "plan_record", {})
        waited = False
        for a in p.acts:
            if a["kind"] in ("alloc", "do_work") and a["task"] in plan:
                if a["machine"] != plan[a["task"]]:
                    run.violate("C17.planned-machine",
                                "ran-on-unplanned-machine",
                                {"task": a["task"], "ran": a["machine"],
                                 "planned": plan[a["task"]],
                                 "via": a["kind"]})
                    break
        for a in p.acts:
            if a["kind"] == "do_work" and a["task"] in plan:
                mid = a["task_obj"].allocated_machine_id
                mid = getattr(mid, "id", mid)
                if mid != plan[a["task"]]:
                    run.violate("C17.never-migrated", "plan-entry-rewritten",
                                {"task": a["task"], "now": mid,
                                 "planned": plan[a["task"]]})
                    break
        # non-trivial: some task had to wait for its planned machine while
        # another machine was free
        if getattr(p, "c17_waited", False):
            run.note("waited-for-planned-machine")
        if plan:
            run.note("nontrivial")


class PlannedMachineWait:
    """Helper for C17's vacuity guard: did some ready task wait for its
    planned machine while a different machine was free?"""

    def on_boundary(self, run, t):
        p = run.probe
        if getattr(p, "c17_waited", False):
            return
        plan = getattr(p, "plan_record", None)
        if not plan:
            return
        sim = run.sim
        res = pools(sim)
        free = {m.id for m in res['available']}
        if not free:
            return
        for o in sim.scheduler.observation_queue:
            if o.plan is None:
                continue
            for task in o.plan.tasks:
                if task.task_status.name != "UNSCHEDULED":
                    continue
                if plan.get(task.id) in free:
                    continue
                preds = list(o.plan.graph.predecessors(task))
                if all(sim.cluster.is_task_finished(x) for x in preds):
                    p.c17_waited = True
                    return


# --------------------------------------------------------------------------
# C19
# --------------------------------------------------------------------------

class TruthfulQueries:
    pid = "C19"

    def start(self, run):
        self.flag = set()
        self.cfg = run.case["cfg"]
        self.seen_true = set()
        self.seen_false = set()
        self.ci = 0
        self.queued = []
        f = world.unit_factor(self.cfg.get("timestep", "seconds"))
        self.dur = {}
        for o in self.cfg["obs"]:
            d = o["dur"] / f
            self.dur[o["name"]] = min(d, self.dur.get(o["name"], d))
        self.bi = 0
        self.begun = []              # (name, begin time)

    def _queued_truth(self, p):
        """Observations handed to the scheduler's allocation loop and not yet
        dropped from the hot buffer by mark_observation_finished -- read off
        the call log, not off the scheduler's own list."""
        calls = p.calls
        while self.ci < len(calls):
            c = calls[self.ci]
            self.ci += 1
            # (by object, not by name: a plan may repeat a name)
            if c["kind"] == "alloc_handed":
                if (c["obs"], c.get("oid")) not in self.queued:
                    self.queued.append((c["obs"], c.get("oid")))
            elif c["kind"] == "hot_remove" and c["ret"]:
                if (c["obs"], c.get("oid")) in self.queued:
                    self.queued.remove((c["obs"], c.get("oid")))
        return self.queued

    def _v(self, run, clause, cause, detail):
        if (clause, cause) not in self.flag:
            self.flag.add((clause, cause))
            run.violate(clause, cause, detail)

    def on_event(self, run):
        sim = run.sim
        p = run.probe
        res = pools(sim)
        tasks = sim.cluster._clusters['default']['tasks']
        ci = sim.cluster.is_idle()
        be = sim.buffer.is_empty()
        si = sim.scheduler.is_idle()
        ti = sim.instrument.is_idle()
        fin = sim.is_finished()
        for nm, v in (("cluster", ci), ("buffer", be), ("scheduler", si),
                      ("telescope", ti), ("finished", fin)):
            (self.seen_true if v else self.seen_false).add(nm)
        if ci:
            why = []
            if tasks['running']:
                why.append("task-in-running-list")
            if any(p.live_dw.values()):
                why.append("task-executing")
            if res['ingest']:
                why.append("machine-on-ingest")
            if res['occupied']:
                why.append("machine-occupied")
            if why:
                self._v(run, "C19.cluster-idle", "idle-while-" + why[0],
                        {"why": why})
        if be:
            hot, cold = sim.buffer.hot[0], sim.buffer.cold[0]
            if hot.current_capacity != self.cfg["hot"][0] or \
                    cold.current_capacity != self.cfg["cold"][0]:
                self._v(run, "C19.buffer-empty", "empty-while-data-resident",
                        {"hot": hot.current_capacity,
                         "cold": cold.current_capacity})
        if si and sim.scheduler.observation_queue:
            self._v(run, "C19.scheduler-idle", "idle-while-queued", {})
        q = self._queued_truth(p)
        if si and q:
            self._v(run, "C19.scheduler-idle",
                    "idle-while-observation-in-allocation-loop",
                    {"handed-over-and-not-finished": [n for n, _ in q]})
        calls = p.calls
        while self.bi < len(calls):
            c = calls[self.bi]
            self.bi += 1
            if c["kind"] == "begin_obs":
                self.begun.append((c["obs"], c["t"]))
        if ti:
            # independent of the status field: an observation that began at
            # t0 observes until t0 + duration
            observing = [(n, t0) for n, t0 in self.begun
                         if run.env.now < t0 + self.dur.get(n, 0)]
            if observing:
                self._v(run, "C19.telescope-idle",
                        "idle-while-observation-within-its-duration",
                        {"observing": observing, "now": run.env.now})
        if ti:
            unfinished = [o.name for o in sim.instrument.observations
                          if o.status.value != "FINISHED"]
            if unfinished or sim.instrument.telescope_use != 0:
                self._v(run, "C19.telescope-idle",
                        "idle-while-" + ("unfinished-observation"
                                         if unfinished else "arrays-in-use"),
                        {"unfinished": unfinished,
                         "use": sim.instrument.telescope_use})
        if fin != (ci and be and si and ti):
            self._v(run, "C19.finished-iff-all-idle",
                    "finished-%s" % ("without-all-idle" if fin
                                     else "not-reported"),
                    {"cluster": ci, "buffer": be, "scheduler": si,
                     "telescope": ti, "finished": fin})

    def finish(self, run):
        if len(self.seen_true) >= 4 and len(self.seen_false) >= 4:
            run.note("nontrivial")


ALL = {c.pid: c for c in (MachineExclusive, PoolPartition, Precedence,
                          ExactlyOnce, Terminates, Runtime,
                          BufferConservation, Admission, Reservations,
                          DelayReported, PlannedMachine, TruthfulQueries)}
