"""Minimal way to run a topsim simulation in this sandbox (SHADOW is not
installed, so use BatchPlanning with QueueProcessing or BatchProcessing).
Run with:  PYTHONPATH=<worktree> TQDM_DISABLE=1 /venv/bin/python example_sim.py
"""
import json, os, tempfile, simpy
from topsim.core.simulation import Simulation
from topsim.user.telescope import Telescope
from topsim.user.plan.batch_planning import BatchPlanning
from topsim.user.schedule.batch_allocation import BatchProcessing
from topsim.user.schedule.queue_allocation import QueueProcessing

d = tempfile.mkdtemp()
# workflow file: networkx node-link format, key must be "edges" (networkx 3.6)
wf = {"header": {"time": False},
      "graph": {"directed": True, "multigraph": False, "graph": {},
                "nodes": [{"id": 0, "comp": 2}, {"id": 1, "comp": 1, "task_data": 1}],
                "edges": [{"source": 0, "target": 1, "transfer_data": 2}]}}
json.dump(wf, open(os.path.join(d, "wf.json"), "w"))
cfg = {"instrument": {"telescope": {
           "total_arrays": 2, "max_ingest_resources": 1,
           "pipelines": {"a": {"workflow": "wf.json", "ingest_demand": 1},
                         "b": {"workflow": "wf.json", "ingest_demand": 1}},
           "observations": [
               {"name": "a", "start": 0, "duration": 2, "instrument_demand": 1, "data_product_rate": 1},
               {"name": "b", "start": 3, "duration": 1, "instrument_demand": 1, "data_product_rate": 2}]}},
       "cluster": {"header": {}, "system": {"resources": {
           "m0": {"flops": 1, "compute_bandwidth": 1},
           "m1": {"flops": 2, "compute_bandwidth": 2}}, "system_bandwidth": 1}},
       "buffer": {"hot": {"capacity": 100, "max_ingest_rate": 10},
                  "cold": {"capacity": 100, "max_data_rate": 10}},
       "timestep": "seconds"}
json.dump(cfg, open(os.path.join(d, "cfg.json"), "w"))
env = simpy.Environment()
sim = Simulation(env, os.path.join(d, "cfg.json"), Telescope,
                 planning_model=BatchPlanning('batch'), planning_algorithm=None,
                 scheduling=QueueProcessing(),   # or BatchProcessing(max_resource_partitions=1, min_resources_per_workflow=1)
                 delay=None, timestamp=0)
df, tasks = sim.start()          # or sim.start(runtime=5); sim.resume(until=9)
print(df.T)                      # per-timestep table
print(tasks)                     # task table (ast/aft per task)
print(sim.monitor.events)        # event log
