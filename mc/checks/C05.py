"""C05 -- every feasible configuration terminates within the serial bound."""
from .. import e1, monitors, world
from . import common

RULE = ("E1: every configuration of S-buffer, S-plan, S-batch, S-contend "
        "satisfying the feasibility predicate F x shipped pairings x delays "
        "<=1/2 tasks; real Simulation.start() under horizon B+1 (serial "
        "bound of the statement, latency constant 4); oracle: no exception "
        "escapes and the run returns by the horizon; non-trivial = every "
        "feasible case")


def monitors_for(case):
    return [monitors.Terminates()]


def cases(tier, seed):
    lvl = "thorough" if tier == "thorough" else "quick"
    out = []
    buf = list(common.buffer_scope(lvl))
    plan = list(common.plan_scope(lvl))
    con = list(common.contend(lvl))
    bat = list(common.batch_scope(lvl))
    if tier != "thorough":
        plan = common.thin(plan, 2)
        con = common.thin(con, 3)
    static = "all" if tier == "thorough" else "diag"

    def shipped(c):
        M = len(c["cfg"]["machines"])
        n = sum(len(c["wfs"][o["wf"]]["nodes"]) for o in c["cfg"]["obs"])
        return common.shipped(c, lvl, static if M ** n <= 64 else "diag")
    for sc, c in common.add_algs(buf + plan + con, shipped):
        c = dict(c)
        c["delay"] = {"mode": "choice", "arity": 3}
        out.append((sc, c))
    for sc, c in common.add_algs(bat,
                                 lambda c: common.batch_algs(c, lvl)):
        c = dict(c)
        c["delay"] = {"mode": "choice", "arity": 3}
        out.append((sc, c))
    for sc, c in common.add_algs(common.ids_scope(lvl),
                                 lambda c: common.shipped(c, lvl, "diag")):
        out.append((sc, c))
    for sc, c in common.add_algs(common.wide_scope(lvl),
                                 lambda c: common.wide_algs(c, lvl)):
        out.append((sc, dict(c, delay={"mode": "choice", "arity": 3})))
    out += common.add_algs(common.park_scope(lvl), common.park_algs)
    out += common.add_algs(common.park2_scope(lvl), common.park_algs)
    out += common.add_algs(common.offgrid_dense_scope(lvl),
                           lambda c: [{"kind": "queue"}])
    return common.rotate(out, seed)


def run(rep, tier, seed):
    rep.rule = RULE
    rep.assumptions = [
        "F: per observation demand<=arrays, ingest<=limit, ingest<=machines, "
        "rate<=hot rate, rate*duration < hot capacity (the code raises at "
        ">=, deliberately), rate*duration <= cold capacity, integral times; "
        "batch: floor(M/p) >= min >= 1",
        "static planning side is EnumeratedStaticPlanning"]
    cs = cases(tier, seed)
    budgets = {"delay": 2 if tier == "thorough" else 1}
    if True:
        every = 10 if tier != "thorough" else 2
        cs2 = []
        for k, (sc, c) in enumerate(cs):
            if not common.keep(k, every):
                c = dict(c)
                c.pop("delay", None)
            cs2.append((sc, c))
        cs = cs2
    e1.sweep(rep, cs, monitors_for, budgets)
    e1.conformance(rep, [x for x in cs if not x[1].get("delay")][::max(
        1, len(cs) // (200 if tier == "thorough" else 40))])


def replay(payload):
    vs, _ = e1.replay_payload(payload, monitors_for)
    return vs
