"""Seams through which the explorer owns topsim's nondeterminism and observes
its executions -- all installed from outside, no repository change.

* ProbeEnvironment: simpy.Environment whose step() calls boundary monitors
  ("beginning of timestep t"), steps the real event, then calls event monitors.
* class-level wrappers around generator/plain methods, which log into the
  Probe object of the environment they run under (``env.probe``).
* Chooser: replayable sequence of explorer choices (delays, adversarial
  proposals, tie promotions).
* ScriptedDelay, EnumeratedStaticPlanning, AdversaryQueue/AdversaryBatch.
"""
import copy
import functools
import json
import math
import os
import traceback

from . import REPO

import simpy
from simpy.events import Timeout, Process, Initialize
import networkx as nx

from topsim.core.task import Task, TaskStatus
from topsim.core.cluster import Cluster
from topsim.core.buffer import Buffer, HotBuffer, ColdBuffer
from topsim.core.scheduler import Scheduler
from topsim.core.planner import WorkflowPlan, WorkflowStatus
from topsim.core.delay import DelayModel
from topsim.algorithms.planning import Planning
from topsim.algorithms.scheduling import Scheduling
from topsim.user.telescope import Telescope
from topsim.user.plan.batch_planning import BatchPlanning
from topsim.user.schedule.batch_allocation import BatchProcessing
from topsim.user.schedule.queue_allocation import QueueProcessing
from topsim.user.schedule.dynamic_plan import DynamicSchedulingFromPlan
from topsim.user.schedule.greedy import GreedySchedulingFromPlan


class HarnessError(Exception):
    """Broken harness (never a property verdict)."""


class HorizonReached(Exception):
    """Raised by ProbeEnvironment.step() when simulated time passes the
    horizon: the run is cut and judged as non-terminating."""


# --------------------------------------------------------------------------
# Choices
# --------------------------------------------------------------------------

class Chooser:
    def __init__(self, prefix=()):
        self.prefix = list(prefix)
        self.points = []      # (kind, arity, taken, info)

    def choose(self, kind, arity, info=None):
        i = len(self.points)
        c = self.prefix[i] if i < len(self.prefix) else 0
        if c >= arity or c < 0:
            raise HarnessError(
                "choice %d out of range at point %d (%s, arity %d): replay "
                "diverged" % (c, i, kind, arity))
        self.points.append((kind, arity, c, info))
        return c

    @property
    def choices(self):
        return [p[2] for p in self.points]


# --------------------------------------------------------------------------
# Probe + environment
# --------------------------------------------------------------------------

class Probe:
    def __init__(self, chooser=None, horizon=None):
        self.chooser = chooser or Chooser()
        self.horizon = horizon
        self.acts = []                # all activation records, in entry order
        self.live_dw = {}             # machine id -> [rec] live do_work
        self.live_alloc = {}          # machine id -> [rec] live allocate_task
        self.calls = []               # plain-call records
        self.n_events = 0
        self.last_boundary = None
        self.boundary_cbs = []
        self.event_cbs = []
        self.sim = None
        self.done = False
        self.delay_task = None
        self.delay_log = []           # (task id, nominal runtime, added)
        self.alg_log = []             # algorithm.run records
        self.tie = False              # allow tie promotions
        self.alloc_task_gens = {}     # id(generator) -> observation name
        self.tie_points = 0

    def rec(self, kind, env, **kw):
        r = {"kind": kind, "t0": env.now, "e0": self.n_events, "t1": None,
             "e1": None, "exc": None}
        r.update(kw)
        self.acts.append(r)
        return r

    def call(self, kind, env_now, **kw):
        r = {"kind": kind, "t": env_now, "e": self.n_events}
        r.update(kw)
        self.calls.append(r)
        return r


class ProbeEnvironment(simpy.Environment):
    """simpy.Environment with observation (and optional tie-promotion) seam.

    Nothing about the order of events is changed unless ``probe.tie`` is set,
    in which case an explorer choice may promote another *tied*
    ``Scheduler.allocate_tasks`` resumption (same time, same priority) ahead
    of the head one.
    """

    def __init__(self, probe=None):
        super().__init__()
        self.probe = probe

    def step(self):
        p = self.probe
        if p is None or p.done:
            return super().step()
        q = self._queue
        if q:
            tn = q[0][0]
            if p.horizon is not None and tn > p.horizon:
                raise HorizonReached(tn)
            if tn == int(tn) and (p.last_boundary is None
                                  or tn > p.last_boundary):
                p.last_boundary = tn
                for cb in p.boundary_cbs:
                    cb(int(tn))
            if p.tie:
                self._maybe_promote(p)
        super().step()
        p.n_events += 1
        for cb in p.event_cbs:
            cb()

    # -- N4: promotion among tied allocate_tasks resumptions ---------------
    def _alloc_tasks_owner(self, p, event):
        if not isinstance(event, Timeout) or not event.callbacks:
            return None
        for cb in event.callbacks:
            proc = getattr(cb, "__self__", None)
            if isinstance(proc, Process):
                name = p.alloc_task_gens.get(id(proc._generator))
                if name is not None:
                    return name
        return None

    def _maybe_promote(self, p):
        q = self._queue
        head = q[0]
        if self._alloc_tasks_owner(p, head[3]) is None:
            return
        tied = [i for i, e in enumerate(q)
                if e[0] == head[0] and e[1] == head[1]
                and self._alloc_tasks_owner(p, e[3]) is not None]
        if len(tied) < 2:
            return
        tied.sort(key=lambda i: q[i][2])
        names = [self._alloc_tasks_owner(p, q[i][3]) for i in tied]
        p.tie_points += 1
        k = p.chooser.choose("tie", len(tied), names)
        if k:
            i0, ik = tied[0], tied[k]
            a, b = q[i0], q[ik]
            q[i0] = (a[0], a[1], a[2], b[3])
            q[ik] = (b[0], b[1], b[2], a[3])
            # heap order is on (time, prio, eid) which did not change


# --------------------------------------------------------------------------
# Wrappers (installed once per process)
# --------------------------------------------------------------------------

_INSTALLED = False
_CUR = {"probe": None}       # for callees that have no env of their own
ORIG = {}


def _probe_of(env):
    p = getattr(env, "probe", None)
    if p is None or p.done:
        return None
    return p


def install():
    global _INSTALLED
    if _INSTALLED:
        return
    _INSTALLED = True

    # Every wrapper of a generator method calls the original AT CALL TIME
    # (exactly when the unwrapped code would) and only wraps the iteration:
    # a wrapper that is itself a generator function would postpone the call
    # to the moment the process starts and could hide (or create) behaviour
    # that depends on what is evaluated eagerly.
    def _iterate(p, inner, make_rec, on_start=None, on_end=None, env=None):
        r = make_rec()
        if on_start:
            on_start(r)
        try:
            res = yield from inner
            return res
        except GeneratorExit:
            raise
        except BaseException as e:
            r["exc"] = repr(e)
            raise
        finally:
            if not p.done:
                r["t1"], r["e1"] = env.now, p.n_events
                if on_end:
                    on_end(r)

    # ---- Task.do_work --------------------------------------------------
    o_do_work = ORIG["Task.do_work"] = Task.do_work

    def do_work(self, env, machine, predecessor_allocations=None):
        inner = o_do_work(self, env, machine, predecessor_allocations)
        p = _probe_of(env)
        if p is None or not hasattr(inner, "send"):
            return inner

        def make():
            return p.rec("do_work", env, task=self.id, machine=machine.id,
                         preds=[t.id for t in
                                (predecessor_allocations or [])],
                         ast=None, aft=None, task_obj=self)

        def start(r):
            p.live_dw.setdefault(machine.id, []).append(r)

        def end(r):
            r["ast"], r["aft"] = self.ast, self.aft
            p.live_dw[machine.id].remove(r)
        return _iterate(p, inner, make, start, end, env)
    Task.do_work = do_work

    o_calc = ORIG["Task._calc_task_delay"] = Task._calc_task_delay

    def _calc_task_delay(self):
        d = self.delay
        if isinstance(d, ScriptedDelay):
            d.script.cur_task = self.id
        return o_calc(self)
    Task._calc_task_delay = _calc_task_delay

    # ---- Cluster -------------------------------------------------------
    o_alloc = ORIG["Cluster.allocate_task_to_cluster"] = \
        Cluster.allocate_task_to_cluster

    def allocate_task_to_cluster(self, task, machine,
                                 predecessor_allocations=None,
                                 observation=None, ingest=False, c='default'):
        inner = o_alloc(self, task, machine, predecessor_allocations,
                        observation, ingest, c)
        p = _probe_of(self.env)
        if p is None or not hasattr(inner, "send"):
            return inner

        def make():
            res = self._clusters[c]['resources']
            pool = ("available" if machine in res['available'] else
                    "ingest" if machine in res['ingest'] else
                    "occupied" if machine in res['occupied'] else
                    next(("idle:%s" % k for k, v in res['idle'].items()
                          if machine in v), "nowhere"))
            return p.rec("alloc", self.env, task=task.id,
                         machine=machine.id, observation=observation,
                         ingest=bool(ingest), pool=pool,
                         preds=[t.id for t in
                                (predecessor_allocations or [])],
                         released=None, task_obj=task)

        def start(r):
            p.live_alloc.setdefault(machine.id, []).append(r)

        def end(r):
            p.live_alloc[machine.id].remove(r)
        return _iterate(p, inner, make, start, end, self.env)
    Cluster.allocate_task_to_cluster = allocate_task_to_cluster

    o_prov_ing = ORIG["Cluster.provision_ingest_resources"] = \
        Cluster.provision_ingest_resources

    def provision_ingest_resources(self, demand, observation, c='default'):
        inner = o_prov_ing(self, demand, observation, c)
        p = _probe_of(self.env)
        if p is None or not hasattr(inner, "send"):
            return inner

        def make():
            return p.rec("prov_ingest", self.env, demand=demand,
                         observation=observation.name,
                         available=[m.id for m in self._clusters[c][
                             'resources']['available']])
        return _iterate(p, inner, make, None, None, self.env)
    Cluster.provision_ingest_resources = provision_ingest_resources

    o_pbr = ORIG["Cluster.provision_batch_resources"] = \
        Cluster.provision_batch_resources

    def provision_batch_resources(self, size, name, c='default'):
        p = _probe_of(self.env)
        if p is None:
            return o_pbr(self, size, name, c)
        r = p.call("prov_batch", self.env.now, size=size, name=name,
                   before=[m.id for m in
                           self._clusters[c]['resources']['available']],
                   total=len(self.machines))
        out = o_pbr(self, size, name, c)
        r["got"] = [m.id for m in
                    self._clusters[c]['resources']['idle'].get(name, [])]
        r["ret"] = out
        return out
    Cluster.provision_batch_resources = provision_batch_resources

    o_rbr = ORIG["Cluster.release_batch_resources"] = \
        Cluster.release_batch_resources

    def release_batch_resources(self, observation, c='default'):
        p = _probe_of(self.env)
        if p is None:
            return o_rbr(self, observation, c)
        had = observation in self._clusters[c]['resources']['idle']
        r = p.call("rel_batch", self.env.now, name=observation, had=had,
                   idle=[m.id for m in self._clusters[c]['resources'][
                       'idle'].get(observation, [])])
        return o_rbr(self, observation, c)
    Cluster.release_batch_resources = release_batch_resources

    # ---- Buffer ---------------------------------------------------------
    def _wrap_buffer_gen(name, kind):
        orig = ORIG["Buffer." + name] = getattr(Buffer, name)

        @functools.wraps(orig)
        def w(self, *a, **k):
            inner = orig(self, *a, **k)
            p = _probe_of(self.env)
            if p is None or not hasattr(inner, "send"):
                return inner
            arg = a[0] if a else None

            def make():
                return p.rec(kind, self.env,
                             arg=getattr(arg, "name", arg), ret=None)

            def gen():
                r = make()
                try:
                    out = yield from inner
                    r["ret"] = out
                    return out
                except GeneratorExit:
                    raise
                except BaseException as e:
                    r["exc"] = repr(e)
                    raise
                finally:
                    if not p.done:
                        r["t1"], r["e1"] = self.env.now, p.n_events
            return gen()
        setattr(Buffer, name, w)

    _wrap_buffer_gen("ingest_data_stream", "ingest_stream")
    _wrap_buffer_gen("move_hot_to_cold", "h2c")
    _wrap_buffer_gen("move_cold_to_hot", "c2h")

    o_pids = ORIG["HotBuffer.process_incoming_data_stream"] = \
        HotBuffer.process_incoming_data_stream

    def process_incoming_data_stream(self, incoming_datarate, time):
        p = _CUR["probe"]
        if p is None or p.done or p.sim is None \
                or p.sim.buffer.hot.get(0) is not self:
            return o_pids(self, incoming_datarate, time)
        r = p.call("deposit", time, rate=incoming_datarate,
                   free_before=self.current_capacity, raised=None)
        try:
            return o_pids(self, incoming_datarate, time)
        except BaseException as e:
            r["raised"] = type(e).__name__
            raise
    HotBuffer.process_incoming_data_stream = process_incoming_data_stream

    o_hrm = ORIG["HotBuffer.remove"] = HotBuffer.remove

    def remove(self, observation):
        p = _CUR["probe"]
        if p is None or p.done or p.sim is None \
                or p.sim.buffer.hot.get(0) is not self:
            return o_hrm(self, observation)
        before = self.current_capacity
        out = o_hrm(self, observation)
        p.call("hot_remove", p.sim.env.now, obs=observation.name, ret=out,
               oid=id(observation),
               freed=self.current_capacity - before,
               size=observation.total_data_size)
        return out
    HotBuffer.remove = remove

    # ---- Scheduler -------------------------------------------------------
    o_at = ORIG["Scheduler.allocate_tasks"] = Scheduler.allocate_tasks

    def allocate_tasks(self, observation):
        inner = o_at(self, observation)
        p = _probe_of(self.env)
        if p is None or not hasattr(inner, "send"):
            return inner
        # independent record of "this observation was handed to the
        # scheduler for processing" (C19's notion of queued)
        p.call("alloc_handed", self.env.now,
               obs=getattr(observation, "name", None), oid=id(observation))

        def make():
            return p.rec("alloc_tasks", self.env,
                         observation=getattr(observation, "name", None))
        g = _iterate(p, inner, make, None, None, self.env)
        # the tie-promotion seam recognises these processes by generator id
        p.alloc_task_gens[id(g)] = getattr(observation, "name", "?")
        p._keep = getattr(p, "_keep", [])
        p._keep.append(g)
        return g
    Scheduler.allocate_tasks = allocate_tasks

    o_ai = ORIG["Scheduler.allocate_ingest"] = Scheduler.allocate_ingest

    def allocate_ingest(self, observation, pipelines, planner,
                        max_ingest=None, c='default'):
        inner = o_ai(self, observation, pipelines, planner, max_ingest, c)
        p = _probe_of(self.env)
        if p is None or not hasattr(inner, "send"):
            return inner

        def make():
            return p.rec("alloc_ingest", self.env,
                         observation=observation.name)
        return _iterate(p, inner, make, None, None, self.env)
    Scheduler.allocate_ingest = allocate_ingest

    # ---- Telescope -------------------------------------------------------
    o_bo = ORIG["Telescope.begin_observation"] = Telescope.begin_observation

    def begin_observation(self, observation):
        p = _probe_of(self.env)
        if p is not None:
            p.call("begin_obs", self.env.now, obs=observation.name,
                   use_before=self.telescope_use)
        return o_bo(self, observation)
    Telescope.begin_observation = begin_observation

    o_fo = ORIG["Telescope.finish_observation"] = Telescope.finish_observation

    def finish_observation(self, observation):
        p = _probe_of(self.env)
        if p is not None:
            p.call("finish_obs", self.env.now, obs=observation.name)
        return o_fo(self, observation)
    Telescope.finish_observation = finish_observation


# --------------------------------------------------------------------------
# Delay injection (N3)
# --------------------------------------------------------------------------

class _Script:
    def __init__(self, probe, mode, table=None, arity=3):
        self.probe = probe
        self.mode = mode          # "choice" | "table" | "none"
        self.table = table or {}
        self.arity = arity
        self.cur_task = None
        self.n = 0


class ScriptedDelay(DelayModel):
    """User delay model whose outputs are explorer decisions.

    generate_delay(r) returns r + d with d >= 0: either the next explorer
    choice (mode "choice", d in 0..arity-1), or looked up per task (mode
    "table": {"<obs>:<node>": d} or {"#k": d} for the k-th call)."""

    def __init__(self, script):
        super().__init__(0.0, "normal", DelayModel.DelayDegree.NONE)
        self.script = script

    def __copy__(self):
        return ScriptedDelay(self.script)

    def generate_delay(self, task_runtime, n=100):
        s = self.script
        tid = s.cur_task
        k = s.n
        s.n += 1
        if s.mode == "choice":
            d = s.probe.chooser.choose("delay", s.arity, tid)
        elif s.mode == "table":
            d = s.table.get("#%d" % k)
            if d is None and tid is not None:
                parts = str(tid).split("_")
                d = s.table.get("%s:%s" % (parts[0], parts[-1]))
            d = d or 0
        else:
            d = 0
        s.probe.delay_log.append((tid, task_runtime, d))
        return task_runtime + d


# --------------------------------------------------------------------------
# Static planning with an enumerated assignment (N2, replaces SHADOW)
# --------------------------------------------------------------------------

class EnumeratedStaticPlanning(Planning):
    """Produces the WorkflowPlan shape of SHADOWPlanning.generate_plan, with
    the task->machine assignment supplied by the explorer."""

    def __init__(self, assign, delay_model=None, record=None):
        super().__init__("enumerated", delay_model)
        self.assign = assign      # {obs name: {node id(str): machine index}}
        self.record = record if record is not None else {}

    def __str__(self):
        return "EnumeratedStaticPlanning"

    def generate_plan(self, clock, cluster, buffer, observation, max_ingest):
        if observation.ast is None:
            raise RuntimeError("Observation AST must be updated before plan")
        with open(observation.workflow) as f:
            graph = nx.readwrite.node_link_graph(json.load(f)["graph"])
        assign = self.assign[observation.name]
        machines = cluster.machines
        order = list(nx.topological_sort(graph))
        ready = {m.id: 0 for m in machines}
        est, eft, mach = {}, {}, {}
        for n in order:
            m = machines[assign[str(n)]]
            comp = graph.nodes[n]["comp"]
            data = graph.nodes[n].get("task_data", 0)
            r = max(int(comp / m.cpu), int(data / m.bandwidth))
            s = ready[m.id]
            for p in graph.predecessors(n):
                arr = eft[p]
                if mach[p] != m.id:
                    arr += graph.edges[p, n]["transfer_data"] / m.bandwidth
                s = max(s, arr)
            est[n], eft[n], mach[n] = s, s + r, m.id
            ready[m.id] = s + r
        mapping, tasks = {}, []
        for n in order:
            tid = self._create_observation_task_id(n, observation, clock)
            preds = [self._create_observation_task_id(x, observation, clock)
                     for x in graph.predecessors(n)]
            io = {self._create_observation_task_id(x, observation, clock):
                  graph.edges[x, n]["transfer_data"]
                  for x in graph.predecessors(n)}
            t = Task(tid, est[n], eft[n], mach[n], preds,
                     graph.nodes[n]["comp"],
                     graph.nodes[n].get("task_data", 0), io,
                     copy.copy(self.delay_model))
            mapping[n] = t
            tasks.append(t)
            self.record[tid] = mach[n]
        new_graph = nx.relabel_nodes(graph, mapping)
        tasks.sort(key=lambda x: x.est)
        exec_order = [t.id for t in tasks]
        west = self._calc_workflow_est(observation, buffer)
        return WorkflowPlan(observation.name, west,
                            max(eft.values()) if eft else 0, tasks,
                            exec_order, WorkflowStatus.SCHEDULED, max_ingest,
                            new_graph)

    def to_df(self):
        pass


# --------------------------------------------------------------------------
# Algorithm proxies: log every algorithm.run; adversaries (N2)
# --------------------------------------------------------------------------

class LoggedAlgorithm(Scheduling):
    """Transparent proxy around a shipped algorithm that records each call
    (inputs summary, proposals returned)."""

    def __init__(self, inner, probe):
        super().__init__()
        self.inner = inner
        self.probe = probe
        self.name = getattr(inner, "name", "alg")

    def __repr__(self):
        return repr(self.inner)

    __str__ = __repr__

    def run(self, cluster, clock, workflow_plan, existing_schedule,
            task_pool):
        out = self.inner.run(cluster, clock, workflow_plan,
                             existing_schedule, task_pool)
        allocs = out[0]
        self.probe.alg_log.append(
            {"t": clock, "e": self.probe.n_events, "plan": workflow_plan.id,
             "proposals": [(t.id, getattr(m, "id", m))
                           for t, m in allocs.items()],
             "status": int(out[1]) if out[1] is not None else None})
        return out

    def to_df(self):
        return self.inner.to_df()


def _pool_of(cluster, machine):
    res = cluster._clusters['default']['resources']
    if machine in res['available']:
        return "available"
    if machine in res['ingest']:
        return "ingest"
    if machine in res['occupied']:
        return "occupied"
    for k, v in res['idle'].items():
        if machine in v:
            return "idle:%s" % k
    return "nowhere"


class _NoReleaseCluster:
    """what an algorithm sees when it leaves the clean-up of its reservation
    to the Scheduler (as the Cluster documentation says it may): the real
    cluster, except that release_batch_resources does nothing"""

    def __init__(self, cluster):
        object.__setattr__(self, "_c", cluster)

    def __getattr__(self, name):
        return getattr(self._c, name)

    def __len__(self):
        return len(self._c)

    def release_batch_resources(self, observation, c='default'):
        return None


class Adversary(Scheduling):
    """User scheduling algorithm = an honest shipped algorithm whose returned
    schedule is perturbed, at explorer-chosen calls, by ONE proposal from a
    finite menu computed from the live cluster state.  Its only power is the
    schedule it returns (what the properties mean by "proposes")."""

    def __init__(self, inner, probe, budget=1, api=False):
        super().__init__()
        self.inner = inner
        self.probe = probe
        self.budget = budget
        self.used = 0
        self.api = api            # may also call the documented cluster API
        self.api_used = 0
        self.norelease = (api == "norelease")
        self.name = "Adversary(%r)" % (inner,)
        self.injected = []

    def __repr__(self):
        return self.name

    __str__ = __repr__

    def to_df(self):
        return None

    def _menu(self, cluster, plan, allocs):
        """Illegal/unusual proposals (task, machine, label)."""
        res = cluster._clusters['default']['resources']
        menu = []
        unsched = [t for t in plan.tasks
                   if t.task_status is TaskStatus.UNSCHEDULED
                   and t not in allocs]
        ready, blocked = [], []
        for t in unsched:
            preds = list(plan.graph.predecessors(t))
            if all(cluster.is_task_finished(p) for p in preds):
                ready.append(t)
            else:
                blocked.append(t)
        sched = [t for t in plan.tasks
                 if t.task_status is TaskStatus.SCHEDULED
                 or t.task_status is TaskStatus.RUNNING]
        proposed = list(allocs.values())
        targets = []
        if proposed:
            targets.append((proposed[0], "dup-proposed"))
        if res['occupied']:
            targets.append((res['occupied'][0], "occupied"))
        if res['ingest']:
            targets.append((res['ingest'][0], "ingest"))
        for k, v in res['idle'].items():
            if v:
                lab = "own-reserved" if k == plan.id else "foreign-reserved"
                targets.append((v[0], lab))
        free = [m for m in res['available'] if m not in proposed]
        if free:
            targets.append((free[0], "free"))
        for cand, tl in ((ready[:1], "ready"), (blocked[:1], "blocked"),
                         (sched[:1], "scheduled")):
            for t in cand:
                for m, ml in targets:
                    if tl == "ready" and ml in ("free",) \
                            and not res['idle']:
                        continue      # that is simply a legal proposal
                    menu.append((t, m, "%s->%s" % (tl, ml)))
        return menu

    def run(self, cluster, clock, workflow_plan, existing_schedule,
            task_pool):
        if self.api and self.api_used < 1 and workflow_plan.tasks:
            # an "elastic" user algorithm: ask the cluster for (more)
            # reserved machines for this workflow, as the Cluster docs allow
            free = len(cluster.get_available_resources())
            if free >= 1:
                k = self.probe.chooser.choose("api", 3, "provision")
                if k:
                    self.api_used += 1
                    cluster.provision_batch_resources(min(k, free),
                                                      workflow_plan.id)
                    self.injected.append(
                        {"t": clock, "task": None, "machine": None,
                         "label": "api:provision-%d" % min(k, free),
                         "plan": workflow_plan.id})
        allocs, status, task_pool = self.inner.run(
            _NoReleaseCluster(cluster) if self.norelease else cluster,
            clock, workflow_plan, existing_schedule, task_pool)
        if self.used < self.budget:
            menu = self._menu(cluster, workflow_plan, allocs)
            if menu:
                k = self.probe.chooser.choose(
                    "adv", len(menu) + 1, [m[2] for m in menu])
                if k:
                    t, m, label = menu[k - 1]
                    self.used += 1
                    allocs[t] = m
                    self.injected.append(
                        {"t": clock, "task": t.id, "machine": m.id,
                         "label": label, "plan": workflow_plan.id})
        self.probe.alg_log.append(
            {"t": clock, "e": self.probe.n_events, "plan": workflow_plan.id,
             "proposals": [(t.id, getattr(m, "id", m))
                           for t, m in allocs.items()],
             "status": int(status) if status is not None else None})
        return allocs, status, task_pool


REUSE = {}


def make_algorithms(case, probe):
    """(planning model, scheduling algorithm) for case['alg']."""
    alg = case.get("alg", {"kind": "queue"})
    dspec = case.get("delay")
    delay_model = None
    if dspec and dspec.get("mode") == "model":
        # a real DelayModel (C10: same seed => same run, also back to back)
        delay_model = DelayModel(
            dspec.get("prob", 0.5), dspec.get("dist", "normal"),
            getattr(DelayModel.DelayDegree, dspec.get("degree", "LOW")),
            dspec.get("seed", 20))
    elif dspec:
        mode = dspec.get("mode", "choice")
        script = _Script(probe, mode, dspec.get("table"),
                         dspec.get("arity", 3))
        delay_model = ScriptedDelay(script)
        probe.script = script
    kind = alg["kind"]
    if kind in ("batch", "advbatch"):
        planning = BatchPlanning('batch', delay_model)
        split = alg.get("split")
        if split:
            split = {k: tuple(v) for k, v in split.items()}
        # (no third argument when there is no split: the default-constructed
        # policy is what users build)
        inner = (BatchProcessing(alg.get("p", 1), alg.get("min", 1), split)
                 if split else
                 BatchProcessing(alg.get("p", 1), alg.get("min", 1)))
    elif kind in ("queue", "advqueue"):
        planning = BatchPlanning('batch', delay_model)
        inner = QueueProcessing()
    elif kind in ("dynamic", "greedy"):
        probe.plan_record = {}
        planning = EnumeratedStaticPlanning(alg["assign"], delay_model,
                                            probe.plan_record)
        inner = (DynamicSchedulingFromPlan() if kind == "dynamic"
                 else GreedySchedulingFromPlan())
    else:
        raise HarnessError("unknown algorithm kind %r" % kind)
    if alg.get("reuse"):
        # the SAME policy object drives several simulations of one history
        # (case["before"]): what it remembers must not leak into the next
        inner = REUSE.setdefault((alg["reuse"], kind), inner)
    if kind.startswith("adv"):
        sched = Adversary(inner, probe, alg.get("budget", 1),
                          alg.get("api", False))
        probe.adversary = sched
    else:
        sched = LoggedAlgorithm(inner, probe)
    return planning, sched


# --------------------------------------------------------------------------
# Hash-order control (N5)
# --------------------------------------------------------------------------

_HASHMAP = {"map": None}
_o_task_hash = Task.__hash__


def _task_hash(self):
    m = _HASHMAP["map"]
    if m is not None:
        parts = str(self.id).split("_")
        k = "%s:%s" % (parts[0], parts[-1])
        h = m.get(k)
        if h is not None:
            return h
    return _o_task_hash(self)


from topsim.core.machine import Machine as _Machine
_o_machine_hash = _Machine.__hash__


def _machine_hash(self):
    m = _HASHMAP["map"]
    if m is not None:
        h = m.get("M:%s" % self.id)
        if h is not None:
            return h
    return _o_machine_hash(self)


def set_hash_order(mapping):
    """mapping: {"<obs>:<node>": small int, "M:<machine id>": small int}
    or None to restore.  Objects hashed by a string id (Task, Machine) are
    the only way the interpreter's hash seed can reach a simulation."""
    _HASHMAP["map"] = mapping
    if mapping is None:
        Task.__hash__ = _o_task_hash
        _Machine.__hash__ = _o_machine_hash
    else:
        Task.__hash__ = _task_hash
        _Machine.__hash__ = _machine_hash


# --------------------------------------------------------------------------
# Exceptions -> (type, innermost topsim site, message)
# --------------------------------------------------------------------------

def exception_site(exc):
    e = exc
    seen = 0
    while e.__cause__ is not None and seen < 10:
        e = e.__cause__
        seen += 1
    site = None
    root = os.path.join(os.path.realpath(REPO), "topsim") + os.sep
    for fs in traceback.extract_tb(e.__traceback__):
        fn = os.path.realpath(fs.filename)
        if fn.startswith(root):
            mod = fn[len(root):-3].replace(os.sep, ".")
            site = "%s.%s" % (mod, fs.name)
    if site is None:
        # deepest frame anywhere (e.g. networkx/pandas called from topsim)
        tb = traceback.extract_tb(e.__traceback__)
        if tb:
            site = "%s.%s" % (os.path.basename(tb[-1].filename)[:-3],
                              tb[-1].name)
    msg = str(e)
    import re
    msg = re.sub(r"\d+(\.\d+)?", "N", msg)[:80]
    return type(e).__name__, site or "?", msg
