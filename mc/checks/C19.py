"""C19 -- idle / empty / finished queries tell the truth."""
from .. import e1, e2, monitors, world
from . import common

RULE = ("E1: after EVERY event of every run of S-contend/S-buffer/S-plan/"
        "S-batch x shipped pairings the five queries are evaluated and "
        "compared with independently probed state (running list, live "
        "activations, pools, buffers' free space, queue, observation "
        "statuses, arrays in use): query true => truth, and "
        "is_finished == conjunction of the four.  E2: Cluster.is_idle in "
        "every state reachable by cluster operation histories (C02's BFS).  "
        "E3: is_finished() against all 16 answer combinations of the four "
        "queries on a real Simulation; observations whose rate rounds to 0 "
        "(buffer empty while their workflow runs).  "
        "non-trivial = run in which each query was seen both true and false")


def monitors_for(case):
    return [monitors.TruthfulQueries()]


def cases(tier, seed):
    lvl = "thorough" if tier == "thorough" else "quick"
    con = list(common.contend(lvl))
    buf = list(common.buffer_scope(lvl))
    plan = list(common.plan_scope(lvl))
    bat = list(common.batch_scope(lvl))
    if tier != "thorough":
        con, buf, plan, bat = common.thin(con, 4), common.thin(buf, 3), common.thin(plan, 3), common.thin(bat, 3)
    out = common.add_algs(con + buf + plan,
                          lambda c: common.shipped(c, lvl, "diag"))
    out += common.add_algs(bat, lambda c: common.batch_algs(c, lvl))
    out += zero_volume_cases()
    return common.rotate(out, seed)


def truth_table(rep):
    """is_finished() == conjunction of the four actor queries, for all 16
    answers (the four queries are replaced on a real Simulation instance)"""
    from .. import run as runmod
    from ..scopes import mkobs, mkcfg, mkcase, dag, CLUSTERS
    import itertools
    case = mkcase(mkcfg(CLUSTERS[1][0], [mkobs("a", 0, 1, 1, 1, 1, "wa")]),
                  {"wa": dag("single", [1])}, {"kind": "queue"})
    for vals in itertools.product((False, True), repeat=4):
        r = runmod.build(case, None, 50, True)
        sim = r.sim
        calls = []

        def mk(name, v):
            def q():
                calls.append(name)
                return v
            return q
        sim.buffer.is_empty = mk("buffer", vals[0])
        sim.cluster.is_idle = mk("cluster", vals[1])
        sim.scheduler.is_idle = mk("scheduler", vals[2])
        sim.instrument.is_idle = mk("telescope", vals[3])
        try:
            got = sim.is_finished()
        except Exception as e:
            got = repr(e)
        r.probe.done = True
        runmod.seams._CUR["probe"] = None
        rep.evaluations += 1
        rep.transitions += 1
        rep.scope("E3-is_finished-truth-table")["cases"] += 1
        rep.scope("E3-is_finished-truth-table")["executions"] += 1
        if got is not all(vals) and got != all(vals) or \
                not isinstance(got, bool):
            names = ("buffer", "cluster", "scheduler", "telescope")
            ignored = [n for n, v in zip(names, vals) if not v] \
                if got is True else []
            rep.violation(
                "C19.finished-iff-all-idle",
                "truth-table:finished-%s" % (
                    "without-" + "+".join(ignored) if got is True
                    else "not-reported" if got is False else "raised"),
                {"engine": "E3", "truth_table": list(vals)},
                {"answers": dict(zip(names, vals)), "is_finished": got},
                "E3-is_finished-truth-table")


def zero_volume_cases():
    """an observation whose rate rounds to 0 occupies no buffer space: the
    buffer is 'empty' while its workflow is queued and running"""
    from ..scopes import mkobs, mkcfg, mkcase, dag, CLUSTERS
    out = []
    for M in (1, 2):
        for wf in (dag("chain3", [1, 2, 1], [0, 0]), dag("fork", [1, 1, 2],
                                                         [1, 0])):
            for second in (None, 3):
                obs = [mkobs("a", 0, 2, 0.4, 1, 1, "wa")]
                wfs = {"wa": wf}
                if second is not None:
                    obs.append(mkobs("b", second, 1, 0.4, 1, 1, "wb"))
                    wfs["wb"] = dag("chain2", [1, 1], [0])
                cfg = mkcfg(CLUSTERS[M][0], obs, (100, 10), (100, 10), 2, 2)
                for alg in ({"kind": "queue"}, {"kind": "batch", "p": 1,
                                                "min": 1}):
                    out.append(("S-zero-volume", mkcase(cfg, wfs, alg)))
    return out


def repeated_name_cases():
    """a plan that observes the same target (same name, same pipeline)
    twice; the second is handed to the scheduler while the first is still
    being processed"""
    from ..scopes import mkobs, mkcfg, mkcase, dag, CLUSTERS
    out = []
    for M in (2, 3):
        for wf in (dag("chain3", [3, 3, 3], [0, 0]),
                   dag("fork", [2, 4, 1], [0, 0])):
            for s2, d2 in ((2, 1), (3, 2), (1, 1)):
                obs = [mkobs("a", 0, 1, 1, 1, 1, "wa"),
                       mkobs("a", s2, d2, 1, 1, 1, "wa")]
                cfg = mkcfg(CLUSTERS[M][0], obs, (100, 10), (100, 10), 2, 2)
                for alg in ({"kind": "queue"},
                            {"kind": "batch", "p": 1, "min": 1},
                            {"kind": "batch", "p": 2, "min": 1}):
                    out.append(("S-repeated-name", mkcase(cfg, {"wa": wf},
                                                          alg)))
    return out


def zero_array_cases():
    """an observation that needs no arrays (instrument_demand 0): it is
    'current' from its start to its end although array use stays 0.  Only
    plans in which no array-using observation ends while it runs (DESIGN 9:
    the unchanged telescope never finishes it otherwise)."""
    from ..scopes import mkobs, mkcfg, mkcase, dag, CLUSTERS
    out = []
    wf = dag("chain2", [2, 1], [0])
    for M in (1, 2):
        for d in (1, 3):
            plans = [[mkobs("z", 0, d, 1, 0, 1, "wa")],
                     [mkobs("z", 1, d, 1, 0, 1, "wa"),
                      mkobs("b", d + 3, 2, 1, 1, 1, "wa")],
                     [mkobs("a", 0, 1, 1, 1, 1, "wa"),
                      mkobs("z", 2, d, 1, 0, 1, "wa")]]
            for obs in plans:
                cfg = mkcfg(CLUSTERS[M][0], obs, (100, 10), (100, 10), 2, 2)
                for alg in ({"kind": "queue"}, {"kind": "batch", "p": 1,
                                                "min": 1}):
                    out.append(("S-zero-arrays", mkcase(cfg, {"wa": wf},
                                                        alg)))
    return out


def long_overlap_cases():
    """a short observation overlapping a long one: the short one is
    ingested, processed and deleted while the long one is still streaming
    into the hot tier (partial data of a stream is in no stored list)"""
    from ..scopes import mkobs, mkcfg, mkcase, dag, CLUSTERS
    out = []
    for M in (2, 3):
        for d1 in (1, 2):
            for s2 in (0, 1):
                for d2 in (6, 9):
                    for wf in (dag("single", [1]), dag("chain2", [1, 1],
                                                       [0])):
                        obs = [mkobs("a", 0, d1, 1, 1, 1, "wa"),
                               mkobs("b", s2, d2, 2, 1, 1, "wa")]
                        cfg = mkcfg(CLUSTERS[M][0], obs, (100, 10),
                                    (100, 10), 2, 2)
                        for alg in ({"kind": "queue"},
                                    {"kind": "batch", "p": 1, "min": 1}):
                            out.append(("S-long-overlap", mkcase(
                                cfg, {"wa": wf}, alg)))
    return out


def huge_buffer_cases():
    """production-sized buffers (the repository's configurations use 5e11)
    holding a few units: 'empty' must still mean exactly full free space"""
    from ..scopes import mkobs, mkcfg, mkcase, dag, CLUSTERS
    out = []
    for cap in (5e11, 4e10, 2 ** 53):
        for r, d in ((1, 2), (3, 1)):
            obs = [mkobs("a", 0, d, r, 1, 1, "wa"),
                   mkobs("b", 4, 1, 1, 1, 1, "wa")]
            cfg = mkcfg(CLUSTERS[2][0], obs, (cap, 10), (cap, 10), 2, 2)
            for alg in ({"kind": "queue"}, {"kind": "batch", "p": 1,
                                            "min": 1}):
                out.append(("S-huge-buffer", mkcase(
                    cfg, {"wa": dag("chain2", [2, 1], [0])}, alg)))
    return out


def run(rep, tier, seed):
    rep.rule = RULE
    truth_table(rep)
    rep.assumptions = ["one-directional for the four actor queries (the "
                       "statement says 'only when'); is_finished is "
                       "compared both ways with the conjunction"]
    e2_states = 0
    e2_tr = 0
    for M, depth in ([(2, 5), (3, 4)] if tier != "thorough"
                     else [(2, 8), (3, 6)]):
        stats, viols = e2.bfs_parallel(M, depth, prop="C19.")
        sc = rep.scope("E2-cluster-M%d-depth%d" % (M, depth))
        sc["cases"] = stats["states"]
        sc["executions"] = stats["transitions"]
        sc["idle_true"] = stats["idle_true"]
        sc["idle_false"] = stats["idle_false"]
        rep.evaluations += stats["transitions"]
        rep.transitions += stats["transitions"]
        e2_states += stats["states"]
        e2_tr += stats["transitions"]
        for (clause, cause, detail), hist in viols:
            if clause.startswith("C19."):
                rep.violation(clause, cause,
                              {"engine": "E2", "M": M,
                               "history": [list(h) for h in hist]},
                              detail, "E2-cluster-M%d" % M)
    cs = cases(tier, seed) + repeated_name_cases() + huge_buffer_cases() + \
        zero_array_cases() + long_overlap_cases() + \
        common.add_algs(list(common.zero_demand_scope(
            "thorough" if tier == "thorough" else "quick")), lambda c: [{"kind": "queue"}, {"kind": "batch", "p": 1, "min": 1}],
            feasible_only=False)
    e1.sweep(rep, cs, monitors_for, {})
    rep.states = len(rep.states) + e2_states
    e1.conformance(rep, cs[::max(1, len(cs) // 40)])
    conf = rep.confirm

    def confirm(payload):
        if payload.get("engine") in ("E2", "E3"):
            return replay(payload)
        return conf(payload)
    rep.confirm = confirm


def replay(payload):
    if payload.get("engine") == "E3":
        from ..report import Reporter
        tmp = Reporter("C19", "quick", 0)
        truth_table(tmp)
        return [{"clause": v["clause"], "cause": v["cause"],
                 "detail": v["detail"]} for v in tmp.violations]
    if payload.get("engine") == "E2":
        vs = e2.replay_history(payload["M"],
                               [tuple(h) for h in payload["history"]])
        return [{"clause": a, "cause": b, "detail": c} for a, b, c in vs
                if a.startswith("C19.")]
    vs, _ = e1.replay_payload(payload, monitors_for)
    return vs
