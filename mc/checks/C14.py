"""C14 -- a generated plan is a faithful copy of the workflow graph."""
import itertools
import os

import simpy

from .. import engine, world
from ..scopes import mkobs, mkcfg, mkcase, dag
from . import common

from topsim.core.config import Config
from topsim.core.cluster import Cluster
from topsim.core.buffer import Buffer
from topsim.core.planner import Planner
from topsim.core.instrument import Observation
from topsim.user.plan.batch_planning import BatchPlanning

RULE = ("E3: ALL labelled DAGs on n<=4 nodes (1+3+25+543; n=5: 29281 in "
        "thorough) with node ids that are neither contiguous nor in "
        "topological order x {no task_data, some, all} x two edge-volume "
        "patterns x observation name/clock in {('a',0),('emu',7)}; real "
        "Planner.run -> BatchPlanning.generate_plan on generated workflow "
        "files; oracle: one task per node, unique ids carrying the "
        "observation name, demands, edges and volumes, pred lists, io map, "
        "topological task order, predecessor/successor queries converse and "
        "equal to the graph; each workflow is planned three times by ONE "
        "planner instance (observation A, another observation at the same "
        "clock, A again at a later clock) and ids must not be shared between "
        "plans; non-trivial = DAG with at least one edge")

IDS = [7, 3, 12, 5, 9]


def all_dags(n):
    pairs = [(i, j) for i in range(n) for j in range(n) if i != j]
    out = []
    for mask in range(1 << len(pairs)):
        edges = [pairs[k] for k in range(len(pairs)) if mask >> k & 1]
        # quick reject: 2-cycles
        es = set(edges)
        if any((j, i) in es for i, j in edges):
            continue
        indeg = [0] * n
        for i, j in edges:
            indeg[j] += 1
        adj = {i: [] for i in range(n)}
        for i, j in edges:
            adj[i].append(j)
        stack = [i for i in range(n) if indeg[i] == 0]
        seen = 0
        while stack:
            v = stack.pop()
            seen += 1
            for w in adj[v]:
                indeg[w] -= 1
                if indeg[w] == 0:
                    stack.append(w)
        if seen == n:
            out.append(edges)
    return out


def make_wf(n, edges, data_mode, vol_mode):
    nodes = []
    for i in range(n):
        d = None
        if data_mode == "all" or (data_mode == "some" and i % 2 == 0):
            d = 10 + i
        comp = 100 + 7 * i
        if data_mode == "huge":
            # integers that a double cannot hold
            comp = 2 ** 53 + 1 + 2 * i
            d = 10 ** 17 + 3 + i if i % 2 == 0 else None
        nodes.append([IDS[i], comp, d])
    es = []
    for i, j in edges:
        if vol_mode == 2:
            # zero-volume edges next to non-zero ones (and all-zero when the
            # DAG has edges of one parity only)
            vol = 0 if (i + j) % 2 else 4 + j
        else:
            vol = (3 * i + j) % 4 if vol_mode == 0 else 5 + i * 10 + j
        es.append([IDS[i], IDS[j], vol])
    return {"nodes": nodes, "edges": es}


_ENV = {}


def judge(wf, name, clock):
    """plans for `name`, then for a second observation at the SAME clock,
    then for `name` again at a later clock - all from ONE planner/planning-
    model instance (plans of a simulation come from one instance)"""
    vs, ids1 = judge_one(wf, name, clock, None)
    state = judge_one.state
    other = "zeta" if name != "zeta" else "eta"
    vs2, ids2 = judge_one(wf, other, clock, state)
    vs3, ids3 = judge_one(wf, name, clock + 3, state)
    out = list(vs)
    for tag, more in (("second-plan-same-clock", vs2),
                      ("third-plan-later-clock", vs3)):
        for c, cause, d in more:
            out.append((c, "%s:%s" % (cause, tag), d))
    if ids1 and ids2 and set(ids1) & set(ids2):
        out.append(("C14.unique-ids", "ids-shared-between-two-plans",
                    {"shared": sorted(set(ids1) & set(ids2))[:4]}))
    if ids1 and ids3 and set(ids1) & set(ids3):
        out.append(("C14.unique-ids", "ids-shared-between-two-plans",
                    {"shared": sorted(set(ids1) & set(ids3))[:4]}))
    seen, res = set(), []
    for v in out:
        if (v[0], v[1]) not in seen:
            seen.add((v[0], v[1]))
            res.append(v)
    return res


def judge_one(wf, name, clock, state):
    cfg = mkcfg([[1, 1]], [mkobs(name, 0, 2, 1, 1, 1, "w")])
    case = mkcase(cfg, {"w": wf})
    path = world.materialise(case)
    if state is None:
        env = simpy.Environment(initial_time=clock)
        config = Config(path)
        cluster = Cluster(env, config)
        planner = Planner(env, cluster, BatchPlanning('batch'), None)
        buffer = Buffer(env, cluster, planner, config)
        judge_one.state = (env, cluster, planner, buffer)
    else:
        env, cluster, planner, buffer = state
        if env.now < clock:
            env.run(until=clock)
    wfpath = os.path.join(os.path.dirname(path), world.config_json(
        cfg, {"w": "wf_%s.json" % world._digest(wf)})["instrument"][
            "telescope"]["pipelines"][name]["workflow"])
    obs = Observation(name, 0, 2, 1, wfpath, 1)
    obs.ast = clock
    vs = []
    try:
        plan = planner.run(obs, buffer, 1)
    except Exception as e:
        return [("C14.plan-generated", "planner-raised:%s" %
                 type(e).__name__, {"error": repr(e)})], []
    node_ids = [n[0] for n in wf["nodes"]]
    tasks = list(plan.tasks)
    by_gid = {}
    for t in tasks:
        by_gid.setdefault(t.graph_id, []).append(t)
    if sorted(by_gid, key=str) != sorted(node_ids, key=str) or \
            any(len(v) != 1 for v in by_gid.values()) or \
            len(tasks) != len(node_ids):
        return [("C14.one-task-per-node", "task-set-differs-from-nodes",
                 {"nodes": node_ids, "tasks": [t.id for t in tasks]})], []
    tid = {g: v[0].id for g, v in by_gid.items()}
    tobj = {g: v[0] for g, v in by_gid.items()}
    if len(set(tid.values())) != len(tid):
        vs.append(("C14.unique-ids", "duplicate-task-id", {"ids": tid}))
    if any(not str(i).startswith(name + "_") and ("_" + name + "_") not in
           str(i) and name not in str(i).split("_") for i in tid.values()):
        vs.append(("C14.unique-ids", "id-without-observation-name",
                   {"ids": list(tid.values())}))
    for n in wf["nodes"]:
        t = tobj[n[0]]
        want_data = n[2] if n[2] is not None else 0
        if t.flops != n[1]:
            vs.append(("C14.demands", "compute-demand-differs",
                       {"node": n[0], "got": t.flops, "want": n[1]}))
        if t.task_data != want_data:
            vs.append(("C14.demands", "data-demand-differs",
                       {"node": n[0], "got": t.task_data,
                        "want": want_data}))
    want_edges = {(tid[u], tid[v]): vol for u, v, vol in wf["edges"]}
    got_edges = {}
    for a, b, d in plan.graph.edges(data=True):
        got_edges[(getattr(a, "id", a), getattr(b, "id", b))] = \
            d.get("transfer_data")
    if set(got_edges) != set(want_edges):
        vs.append(("C14.edges", "edge-set-differs",
                   {"want": sorted(want_edges), "got": sorted(got_edges)}))
    elif got_edges != want_edges:
        vs.append(("C14.edges", "edge-volume-differs",
                   {"want": want_edges, "got": got_edges}))
    if len(plan.graph.nodes) != len(node_ids):
        vs.append(("C14.edges", "plan-graph-node-count",
                   {"graph_nodes": len(plan.graph.nodes),
                    "workflow_nodes": len(node_ids)}))
    preds = {n: set() for n in node_ids}
    succs = {n: set() for n in node_ids}
    for u, v, vol in wf["edges"]:
        preds[v].add(u)
        succs[u].add(v)
    for n in node_ids:
        t = tobj[n]
        wp = {tid[p] for p in preds[n]}
        if set(t.pred) != wp or len(t.pred) != len(wp):
            vs.append(("C14.pred-list", "predecessor-list-differs",
                       {"task": t.id, "got": list(t.pred),
                        "want": sorted(wp)}))
        wio = {tid[p]: vol for p, v, vol in wf["edges"] if v == n}
        if dict(t.io or {}) != wio:
            vs.append(("C14.io", "per-edge-volume-map-differs",
                       {"task": t.id, "got": t.io, "want": wio}))
        try:
            gp = {getattr(x, "id", x)
                  for x in plan.get_task_predecessors(t)}
            gs = {getattr(x, "id", x) for x in plan.get_task_successors(t)}
        except Exception as e:
            vs.append(("C14.queries", "query-raised:%s" % type(e).__name__,
                       {"task": t.id, "error": repr(e)}))
            continue
        if gp != wp:
            vs.append(("C14.queries", "predecessor-query-differs",
                       {"task": t.id, "got": sorted(gp),
                        "want": sorted(wp)}))
        if gs != {tid[s] for s in succs[n]}:
            vs.append(("C14.queries", "successor-query-differs",
                       {"task": t.id, "got": sorted(gs),
                        "want": sorted(tid[s] for s in succs[n])}))
    pos = {t.graph_id: k for k, t in enumerate(tasks)}
    for u, v, _ in wf["edges"]:
        if pos[u] > pos[v]:
            vs.append(("C14.topological-order", "task-before-predecessor",
                       {"order": [t.id for t in tasks], "edge": [u, v]}))
            break
    # converse
    for n in node_ids:
        for m in node_ids:
            try:
                p_in = tobj[m] in set(plan.get_task_predecessors(tobj[n]))
                s_in = tobj[n] in set(plan.get_task_successors(tobj[m]))
            except Exception:
                continue          # reported above as query-raised
            if p_in != s_in:
                vs.append(("C14.queries", "queries-not-converse",
                           {"t": tid[n], "p": tid[m]}))
                break
            # these are REPEATED queries about the same tasks (each was
            # asked once above): they must still agree with the graph
            want = m in preds[n]
            if p_in != want or s_in != want:
                vs.append(("C14.queries", "repeated-query-differs-from-graph",
                           {"t": tid[n], "p": tid[m], "edge": want,
                            "predecessor_query": p_in,
                            "successor_query": s_in}))
                break
    # the plan is attached to the observation and consumed by the scheduler
    # (which replaces plan.tasks by the unfinished ones): a plan generated
    # for the same observation after that is again a full plan
    if len(tasks) >= 2:
        try:
            obs.plan = plan
            plan.tasks = list(plan.tasks)[1:]
            again = planner.run(obs, buffer, 1)
            if again is None or len(list(again.tasks)) != len(node_ids) or \
                    {t.graph_id for t in again.tasks} != set(node_ids):
                vs.append(("C14.one-task-per-node",
                           "replanned-running-observation:task-set-differs",
                           {"nodes": node_ids, "tasks": None if again is None
                            else [t.id for t in again.tasks]}))
        except Exception as e:
            vs.append(("C14.plan-generated", "replanning-raised:%s"
                       % type(e).__name__, {"error": repr(e)}))
    # dedupe by (clause, cause)
    seen, out = set(), []
    for v in vs:
        if (v[0], v[1]) not in seen:
            seen.add((v[0], v[1]))
            out.append(v)
    return out, list(tid.values())


def run(rep, tier, seed):
    rep.rule = RULE
    rep.assumptions = ["BatchPlanning is the only in-tree planner that can "
                       "be imported here (SHADOW is absent)"]
    items = []
    for n in range(1, 6 if tier == "thorough" else 5):
        for edges in all_dags(n):
            if n == 5:
                combos = [("some", 0, ("emu", 7)), ("none", 1, ("a", 0)),
                          ("all", 0, ("a", 3)), ("some", 2, ("a", 0))]
            else:
                combos = [(dm, vm, nc) for dm in ("none", "some", "all")
                          for vm in (0, 1)
                          for nc in (("a", 0), ("emu", 7))]
                combos += [("some", 2, ("a", 0)), ("none", 2, ("emu", 7)),
                           ("huge", 1, ("a", 0))]
            for dm, vm, nc in combos:
                items.append({"engine": "E3", "n": n, "edges": edges,
                              "data": dm, "vol": vm, "name": nc[0],
                              "clock": nc[1]})
    items = common.rotate(items, seed)

    def work(i, c):
        wf = make_wf(c["n"], c["edges"], c["data"], c["vol"])
        return judge(wf, c["name"], c["clock"])
    res, _ = engine.parallel_map(work, items, chunk=200)
    for c, vs in zip(items, res):
        s = rep.scope("E3-dags-n%d" % c["n"])
        s["cases"] += 1
        s["executions"] += 1
        rep.evaluations += 1
        rep.transitions += 3
        if c["edges"]:
            rep.nontrivial.add(len(rep.nontrivial))
        for clause, cause, det in vs:
            rep.violation(clause, cause, c, det, "E3-dags-n%d" % c["n"])
    rep.states = len(items)
    rep.outcomes = {len(r) for r in res}
    rep.add_sample(items[len(items) // 2])
    rep.add_sample(items[-1])
    rep.confirm = replay


def replay(payload):
    wf = make_wf(payload["n"], [tuple(e) for e in payload["edges"]],
                 payload["data"], payload["vol"])
    return [{"clause": a, "cause": b, "detail": c}
            for a, b, c in judge(wf, payload["name"], payload["clock"])]
