#!/bin/sh
# Run the repository's pinned suite (BASELINE.json cmd) in directory $1
# (default /repo) and check that all 30 stable tests pass.  Exit 0 iff they do.
DIR="${1:-/repo}"
OUT="$(mktemp /tmp/pinned.XXXXXX.xml)"
cd "$DIR" || exit 2
/venv/bin/python -m pytest -ra -q -p no:cacheprovider --timeout=900 \
    --continue-on-collection-errors --junitxml="$OUT" >/dev/null 2>&1
/venv/bin/python - "$OUT" <<'EOF'
import json, sys, xml.etree.ElementTree as ET
base = json.load(open('/root/.vp/BASELINE.json'))
want = set(base['stable_pass'])
ok = set()
for tc in ET.parse(sys.argv[1]).getroot().iter('testcase'):
    if not any(ch.tag in ('failure', 'error', 'skipped') for ch in tc):
        ok.add('%s::%s' % (tc.get('classname'), tc.get('name')))
missing = sorted(want - ok)
print('pinned suite: %d/%d stable tests pass' % (len(want) - len(missing), len(want)))
for m in missing:
    print('  NOT PASSING:', m)
sys.exit(1 if missing else 0)
EOF
RC=$?
rm -f "$OUT"
exit $RC
