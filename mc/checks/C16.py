"""C16 -- timestep units rescale every time-dependent quantity consistently."""
import itertools

from .. import engine, world
from ..scopes import mkobs, mkcfg, mkcase, dag
from . import common

from topsim.core.config import Config

RULE = ("E3: for every unit u in {'seconds','minutes','hours',1,2,7,60,90,"
        "3600} and every base tuple (start, duration multiples of the unit; "
        "rate, hot/cold rate, cpu, bandwidth, system bandwidth, capacities, "
        "demands, counts from small sets) the SAME physical configuration is "
        "parsed by the three real Config.parse_* methods with timestep "
        "'seconds' and with u; oracle: starts/durations divided by f(u), "
        "observation rate, buffer rates, cpu and bandwidths multiplied by "
        "f(u), capacities/demands/arrays/limits unchanged, same f in all "
        "three sections (volume rate*duration, rate<=max_ingest_rate and "
        "floor(comp/cpu)*f invariant); plus a factor sweep: every custom "
        "integer factor 1..128 (512) and 150..86400 x every whole multiple "
        "k=0..40 (100) of it as start/duration; each pair is parsed in four "
        "orders of loading/parsing the two configurations in one process "
        "(immediately, both loaded first, reversed, sections interleaved, each parsed twice); "
        "plus every planned start 0..3f seconds (off the unit's grid) x "
        "durations of 1,2,3,7 steps for units 5,7,10,minutes(+3,30,90): "
        "parsed duration exactly k, parsed start exactly s/f; "
        "plus E1 pairs: small whole-multiple configurations (chain of two "
        "tasks with runtimes 1..3(4) steps of the unit, compute- or "
        "data-bound, one transfer, 1-2 machines, queue/batch/static) are "
        "SIMULATED with 'seconds' and with u in {2,7,minutes}(+3,60,90): "
        "task runtimes and ingest durations in seconds and ingested volume "
        "must agree; non-trivial = unit with f>1")

UNITS = ["seconds", "minutes", "hours", 1, 2, 7, 60, 90, 3600]


def factor(u):
    return {"seconds": 1, "minutes": 60, "hours": 3600}.get(u, u)


def _path(cfg):
    return world.materialise(mkcase(cfg, {"wa": dag("single", [1]),
                                          "wb": dag("single", [1])}))


ORDERS = ("immediate", "load-both-then-parse", "load-both-parse-reversed",
          "interleave-sections", "parse-each-twice")


def parse_pair(cfg_s, cfg_u, order):
    """parse the seconds and the unit configuration in one process, with the
    loads and the three section parses interleaved as `order` says: a
    configuration's result must not depend on what else was loaded"""
    ps, pu = _path(cfg_s), _path(cfg_u)
    if order == "immediate":
        return parse(Config(ps)), parse(Config(pu))
    a, b = Config(ps), Config(pu)
    if order == "load-both-then-parse":
        return parse(a), parse(b)
    if order == "load-both-parse-reversed":
        rb = parse(b)
        return parse(a), rb
    if order == "parse-each-twice":
        # the result of parsing a configuration object must not depend on
        # whether it has been parsed before (two actor sets from one Config)
        parse(a)
        parse(b)
        return parse(a), parse(b)
    # interleave the sections of the two configurations
    ra, rb = {}, {}
    ra["cl"] = a.parse_cluster_config()
    rb["cl"] = b.parse_cluster_config()
    rb["in"] = b.parse_instrument_config("telescope")
    ra["in"] = a.parse_instrument_config("telescope")
    ra["bu"] = a.parse_buffer_config()
    rb["bu"] = b.parse_buffer_config()
    return (_pack(ra["cl"], ra["in"], ra["bu"]),
            _pack(rb["cl"], rb["in"], rb["bu"]))


def parse(c):
    return _pack(c.parse_cluster_config(),
                 c.parse_instrument_config("telescope"),
                 c.parse_buffer_config())


def _pack(cl, ins, bu):
    machines, sysbw = cl
    arrays, pipelines, observations, max_ingest = ins
    hot, cold = bu
    return {
        "machines": [(m.id, m.cpu, m.bandwidth) for m in machines],
        "sysbw": sysbw, "arrays": arrays, "max_ingest": max_ingest,
        "ingest_demand": {k: v["ingest_demand"]
                          for k, v in pipelines.items()},
        "obs": [(o.name, o.est, o.duration, o.ingest_data_rate, o.demand)
                for o in observations],
        "hot": (hot[0].total_capacity, hot[0].max_ingest_data_rate),
        "cold": (cold[0].total_capacity, cold[0].max_data_rate)}


def judge(c):
    u = c["unit"]
    f = factor(u)
    k1, k2, d1, d2 = c["starts"] + c["durs"]
    obs = [mkobs("a", k1 * f, d1 * f, c["rate"], c["demand"], 1, "wa"),
           mkobs("b", k2 * f, d2 * f, c["rate"] + 1, 1, c["ingest"], "wb")]
    base = mkcfg([[c["cpu"], c["bw"]], [c["cpu"] + 1, c["bw"] * 2]], obs,
                 (c["hotcap"], c["hotrate"]), (c["coldcap"], c["coldrate"]),
                 c["arrays"], c["max_ingest"])
    base["sysbw"] = c["sysbw"]
    out = list(judge_ratelimit(base, u))
    orders = ORDERS if c.get("orders", True) else ORDERS[:1]
    for order in orders:
        for clause, cause, det in judge_order(c, base, u, f, order):
            if order != "immediate":
                cause = "%s:%s" % (cause, order)
            out.append((clause, cause, det))
    seen, res = set(), []
    for v in out:
        if (v[0], v[1]) not in seen:
            seen.add((v[0], v[1]))
            res.append(v)
    return res


def judge_ratelimit(base, u):
    """the rate-limit comparison itself (the real hot buffer accepting or
    rejecting one timestep of the real parsed observation rate) must come
    out the same in seconds and in the unit"""
    res = {}
    for unit in ("seconds", u):
        try:
            cfg = Config(_path(dict(base, timestep=unit)))
            _, _, observations, _ = cfg.parse_instrument_config("telescope")
            hot, _ = cfg.parse_buffer_config()
            verdicts = []
            for o in observations:
                hb = hot[0]
                try:
                    hb.process_incoming_data_stream(o.ingest_data_rate, 0)
                    verdicts.append("accepted")
                except ValueError:
                    verdicts.append("rejected")
            res[unit] = verdicts
        except Exception as e:
            return [("C16.parses", "parse-raised:%s" % type(e).__name__,
                     {"error": repr(e)})]
    if res["seconds"] != res[u]:
        return [("C16.cross-section",
                 "hot-buffer-rate-check-depends-on-unit",
                 {"seconds": res["seconds"], "unit": res[u]})]
    return []


def judge_order(c, base, u, f, order):
    try:
        s, p = parse_pair(dict(base, timestep="seconds"),
                          dict(base, timestep=u), order)
    except Exception as e:
        return [("C16.parses", "parse-raised:%s" % type(e).__name__,
                 {"error": repr(e)})]
    vs = []

    def bad(clause, cause, det):
        vs.append((clause, cause, det))
    for (n1, e1, du1, r1, dem1), (n2, e2, du2, r2, dem2) in zip(
            s["obs"], p["obs"]):
        if e2 * f != e1:
            bad("C16.instrument", "start-not-divided-by-factor",
                {"seconds": e1, "unit": e2, "f": f})
        if du2 * f != du1:
            bad("C16.instrument", "duration-not-divided-by-factor",
                {"seconds": du1, "unit": du2, "f": f})
        if r2 != r1 * f:
            bad("C16.instrument", "data-rate-not-multiplied-by-factor",
                {"seconds": r1, "unit": r2, "f": f})
        if dem1 != dem2:
            bad("C16.unscaled", "instrument-demand-scaled", {})
        if r2 * du2 != r1 * du1:
            bad("C16.cross-section", "observation-volume-depends-on-unit",
                {"seconds": r1 * du1, "unit": r2 * du2})
    for (i1, c1, b1), (i2, c2, b2) in zip(s["machines"], p["machines"]):
        if c2 != c1 * f:
            bad("C16.cluster", "machine-speed-not-multiplied-by-factor",
                {"seconds": c1, "unit": c2, "f": f})
        if b2 != b1 * f:
            bad("C16.cluster", "machine-bandwidth-not-multiplied-by-factor",
                {"seconds": b1, "unit": b2, "f": f})
        comp = 7 * c1 * 3          # a task of 21 seconds on this machine
        if int(comp / c2) * f != int(comp / c1) and (21 % f == 0):
            bad("C16.cross-section", "task-runtime-depends-on-unit",
                {"seconds": int(comp / c1), "unit": int(comp / c2) * f})
    if p["sysbw"] != s["sysbw"] * f:
        bad("C16.cluster", "system-bandwidth-not-multiplied-by-factor",
            {"seconds": s["sysbw"], "unit": p["sysbw"], "f": f})
    if p["hot"][1] != s["hot"][1] * f:
        bad("C16.buffer", "hot-rate-not-multiplied-by-factor",
            {"seconds": s["hot"][1], "unit": p["hot"][1], "f": f})
    if p["cold"][1] != s["cold"][1] * f:
        bad("C16.buffer", "cold-rate-not-multiplied-by-factor",
            {"seconds": s["cold"][1], "unit": p["cold"][1], "f": f})
    if p["hot"][0] != s["hot"][0] or p["cold"][0] != s["cold"][0]:
        bad("C16.unscaled", "buffer-capacity-scaled", {})
    for key in ("arrays", "max_ingest", "ingest_demand"):
        if p[key] != s[key]:
            bad("C16.unscaled", "%s-scaled" % key, {})
    for (n1, e1, du1, r1, _), (n2, e2, du2, r2, _) in zip(s["obs"],
                                                         p["obs"]):
        if (r1 <= s["hot"][1]) != (r2 <= p["hot"][1]):
            bad("C16.cross-section", "rate-limit-comparison-depends-on-unit",
                {"obs": n1})
    seen, out = set(), []
    for v in vs:
        if (v[0], v[1]) not in seen:
            seen.add((v[0], v[1]))
            out.append(v)
    return out


def domain(tier):
    if tier == "thorough":
        starts = [(0, 1), (2, 2), (3, 7)]
        durs = [(1, 1), (2, 5), (10, 3)]
        rates = [1, 3, 4]
        hr = [(1, 1), (3, 2), (5, 10)]
        cpus = [(1, 1), (2, 3), (84, 10)]
        caps = [(10, 10), (500, 250)]
        misc = [(2, 1, 1, 1, 1), (36, 5, 2, 2, 10), (4, 2, 1, 2, 3)]
    else:
        starts = [(0, 1), (3, 7)]
        durs = [(1, 1), (2, 5)]
        rates = [1, 2, 3, 4]
        hr = [(1, 1), (3, 2), (5, 10)]
        cpus = [(1, 1), (2, 3), (84, 10)]
        caps = [(10, 10), (500, 250)]
        misc = [(2, 1, 1, 1, 1), (36, 5, 2, 2, 10)]
    for u in UNITS:
        for st, du, r, (hrate, crate), (cpu, bw), (hc, cc), \
                (arrays, mi, dem, ing, sysbw) in itertools.product(
                    starts, durs, rates, hr, cpus, caps, misc):
            yield {"engine": "E3", "unit": u, "starts": list(st),
                   "durs": list(du), "rate": r, "hotrate": hrate,
                   "coldrate": crate, "cpu": cpu, "bw": bw, "hotcap": hc,
                   "coldcap": cc, "arrays": arrays, "max_ingest": mi,
                   "demand": dem, "ingest": ing, "sysbw": sysbw}


def factor_sweep(tier):
    """every custom integer factor of a range x every whole multiple k of it
    for start and duration (catches inexact conversions such as x * (1/f))"""
    fs = list(range(1, 129 if tier != "thorough" else 513)) + \
        [150, 300, 600, 900, 1800, 3600, 7200, 86400]
    ks = range(0, 41 if tier != "thorough" else 101)
    for f in fs:
        for k in ks:
            yield {"engine": "E3", "unit": f, "starts": [k, k + 1],
                   "durs": [max(k, 1), k + 2], "rate": 3, "hotrate": 5,
                   "coldrate": 2, "cpu": 2, "bw": 3, "hotcap": 10 ** 9,
                   "coldcap": 10 ** 9, "arrays": 4, "max_ingest": 2,
                   "demand": 2, "ingest": 1, "sysbw": 1}


def offgrid_sweep(tier):
    """planned starts that are NOT whole multiples of the unit (the
    repository's own custom-unit configuration has them) with durations that
    are: the parsed duration must be exactly k steps and the start s/f"""
    units = [5, 7, 10, "minutes"] + ([3, 90, 30] if tier == "thorough"
                                     else [])
    for u in units:
        f = factor(u)
        for s in range(0, 3 * f + 1):
            yield {"engine": "E3-offgrid", "unit": u, "start": s}


def judge_offgrid(c):
    u, s = c["unit"], c["start"]
    f = factor(u)
    vs = []
    for k in (1, 2, 3, 7):
        obs = [mkobs("a", s, k * f, 1, 1, 1, "wa")]
        cfg = mkcfg([[1, 1]], obs, (10 ** 6, 10), (10 ** 6, 10), 2, 2,
                    timestep=u)
        try:
            conf = Config(_path(cfg))
            _, _, observations, _ = conf.parse_instrument_config("telescope")
        except Exception as e:
            return [("C16.parses", "parse-raised:%s" % type(e).__name__,
                     {"error": repr(e)})]
        o = observations[0]
        if o.duration != k:
            vs.append(("C16.instrument",
                       "duration-not-divided-exactly:off-grid-start",
                       {"start_s": s, "duration_s": k * f,
                        "parsed": repr(o.duration), "want": k}))
        if o.est != s / f:
            vs.append(("C16.instrument",
                       "start-not-divided-exactly:off-grid-start",
                       {"start_s": s, "parsed": repr(o.est),
                        "want": repr(s / f)}))
    seen, out = set(), []
    for v in vs:
        if (v[0], v[1]) not in seen:
            seen.add((v[0], v[1]))
            out.append(v)
    return out


def judge_realtime(c):
    """the documented 'real time' cold buffer (max_data_rate -1): a tier
    move must come out the same in seconds and in the unit (the flag is
    scaled like every rate; the decision it stands for must not change)"""
    from .. import seams
    from ..seams import ProbeEnvironment, Probe
    from topsim.core.cluster import Cluster
    from topsim.core.buffer import Buffer
    from topsim.core.instrument import Observation
    u, size = c["unit"], c["size"]
    res = {}
    import contextlib, io
    with contextlib.redirect_stdout(io.StringIO()):
        res = _realtime_outcomes(c, u, size)
    if res["seconds"] != res[u]:
        return [("C16.cross-section",
                 "real-time-cold-buffer-move-depends-on-unit",
                 {"seconds": res["seconds"], "unit": res[u]})]
    return []


def _realtime_outcomes(c, u, size):
    from ..seams import ProbeEnvironment, Probe
    from topsim.core.cluster import Cluster
    from topsim.core.buffer import Buffer
    from topsim.core.instrument import Observation
    res = {}
    for unit in ("seconds", u):
        cfg = mkcfg([[1, 1]], [mkobs("a", 0, 1, 1, 1, 1, "wa")],
                    (size + 20, 5), (size + 20, -1), timestep=unit)
        try:
            conf = Config(_path(cfg))
            probe = Probe()
            env = ProbeEnvironment(probe)
            buf = Buffer(env, Cluster(env, conf), None, conf)
            h, cold = buf.hot[0], buf.cold[0]
            o = Observation("a", 0, 1, 1, "none", size)
            o.total_data_size = size
            h.observations['stored'].append(o)
            h.current_capacity -= size
            outcome = []
            for move in c["moves"]:
                proc = env.process(buf.move_hot_to_cold(0) if move == "h2c"
                                   else buf.move_cold_to_hot(0))
                steps = 0
                while not proc.triggered and steps < 60:
                    while env._queue and env._queue[0][0] <= env.now:
                        env.step()
                    if proc.triggered:
                        break
                    steps += 1
                    env._now = env.now + 1
                outcome.append(("done" if proc.triggered and proc.ok
                                else "raised" if proc.triggered
                                else "never", steps))
            res[unit] = (outcome, h.current_capacity, cold.current_capacity,
                         [x.name for x in h.observations['stored']],
                         [x.name for x in cold.observations['stored']])
        except Exception as e:
            res[unit] = ("raised:%s" % type(e).__name__, repr(e)[:120])
    return res


def sim_pairs(tier):
    """The same physical configuration (whole multiples of the unit
    everywhere) to be SIMULATED with timestep 'seconds' and with unit u."""
    from ..scopes import CLUSTERS
    units = [2, 7, "minutes"] + ([3, 60, 90] if tier == "thorough" else [])
    ks = [(1, 1), (1, 2), (2, 1), (3, 1)]
    if tier == "thorough":
        ks += [(2, 2), (1, 3), (4, 1)]
    for unit in units:
        f = factor(unit)
        for M, machines in ((1, CLUSTERS[1][0]), (1, CLUSTERS[1][1]),
                            (2, CLUSTERS[2][0])):
            cpu, bw = machines[0]
            for k1, k2 in ks:
                for datak in (None, 2):
                    for s, d, r in ((0, 1, 1), (1, 2, 2)):
                        data = None if datak is None else \
                            [datak * f * bw, 0]
                        wa = dag("chain2", [k1 * f * cpu, k2 * f * cpu],
                                 [f * bw], data=data)
                        obs = [mkobs("a", s * f, d * f, r, 1, 1, "wa")]
                        mi = 2
                        if (k1, k2) == (1, 1) and datak is None:
                            # back to back, one ingest machine: b is due in
                            # the step in which a hands its machine back and
                            # starts one STEP late in every unit -- its
                            # volume and duration must not suffer
                            obs.append(mkobs("b", (s + d) * f, 2 * f, r, 1,
                                             1, "wa"))
                            mi = 1
                        base = dict(machines=machines, obs=obs,
                                    hot=(100 * f, 10), cold=(100 * f, 10),
                                    arrays=2, max_ingest=mi)
                        algs = [{"kind": "queue"},
                                {"kind": "batch", "p": 1, "min": 1}]
                        asg = {o["name"]: {"0": 0, "1": M - 1}
                               for o in obs}
                        algs.append({"kind": "dynamic", "assign": asg})
                        for alg in algs:
                            yield {"engine": "E1-pair", "unit": unit,
                                   "base": base, "wa": wa, "alg": alg}


def _sim_observe(base, wa, alg, unit):
    from .. import run as runmod, e1
    from ..monitors import parse_tid
    cfg = mkcfg(base["machines"], base["obs"], base["hot"], base["cold"],
                base["arrays"], base["max_ingest"], timestep=unit)
    case = mkcase(cfg, {"wa": wa}, alg)
    r = runmod.execute(case, [], (), 40 + 12 * e1.horizon_of(case)
                       if unit == "seconds" else e1.horizon_of(case))
    f = factor(unit)
    out = {"outcome": r.outcome, "tasks": {}, "volume": {}, "ingest": {}}
    for tid, (ast, aft, fin) in runmod.task_table(r.sim).items():
        o, kind, node = parse_tid(tid)
        out["tasks"]["%s:%s:%s" % (o, kind, node)] = (aft - ast) * f
    t0 = {}
    for c in r.probe.calls:
        if c["kind"] == "begin_obs":
            t0[c["obs"]] = c["t"]
        elif c["kind"] == "finish_obs":
            out["ingest"][c["obs"]] = (c["t"] - t0.get(c["obs"], 0)) * f
        elif c["kind"] == "deposit" and not c["raised"]:
            # rate is per step: rate [1/step] x f [s/step] ... the parsed
            # rate is already multiplied by f, so summing it gives volume
            out["volume"]["all"] = out["volume"].get("all", 0) + c["rate"]
    return out


def judge_sim(c):
    """task runtimes / ingest durations in seconds and ingested volumes of a
    whole simulated run must not depend on the unit"""
    try:
        a = _sim_observe(c["base"], c["wa"], c["alg"], "seconds")
        b = _sim_observe(c["base"], c["wa"], c["alg"], c["unit"])
    except Exception as e:
        from ..seams import HarnessError
        raise HarnessError("C16 simulated pair failed: %r" % (e,))
    if a["outcome"] != "returned" or b["outcome"] != "returned":
        return [], False
    vs = []
    for key, cause in (("tasks", "task-runtime-in-seconds"),
                       ("ingest", "ingest-duration-in-seconds"),
                       ("volume", "ingested-volume")):
        if a[key] != b[key]:
            vs.append(("C16.simulated-run",
                       "%s-depends-on-unit" % cause,
                       {"seconds": a[key], "unit": b[key]}))
    return vs, True


def run(rep, tier, seed):
    rep.rule = RULE
    rep.assumptions = ["values are whole multiples of the unit, as the "
                       "property says (no claim about rounding)"]
    items = common.rotate(list(domain(tier)) + list(factor_sweep(tier)), seed)

    def work(i, c):
        return judge(c)
    res, _ = engine.parallel_map(work, items, chunk=100)
    for c, vs in zip(items, res):
        s = rep.scope("E3-unit-%s" % c["unit"])
        s["cases"] += 1
        s["executions"] += 2
        rep.evaluations += 1
        rep.transitions += 36
        if factor(c["unit"]) > 1:
            rep.nontrivial.add(len(rep.nontrivial))
        for clause, cause, det in vs:
            rep.violation(clause, cause, c, det, "E3-unit-%s" % c["unit"])
    og = list(offgrid_sweep(tier))

    def work3(i, c):
        return judge_offgrid(c)
    res3, _ = engine.parallel_map(work3, og, chunk=20)
    for c, vs in zip(og, res3):
        sc = "E3-offgrid-starts/unit-%s" % c["unit"]
        s_ = rep.scope(sc)
        s_["cases"] += 1
        s_["executions"] += 4
        rep.evaluations += 4
        for clause, cause, det in vs:
            rep.violation(clause, cause, c, det, sc)
    rts = [{"engine": "E3-realtime", "unit": u, "size": sz, "moves": mv}
           for u in (2, 7, "minutes", "hours", 90)
           for sz in (3, 12, 40)
           for mv in (["h2c"], ["h2c", "c2h"])]

    def work4(i, c):
        return judge_realtime(c)
    res4, _ = engine.parallel_map(work4, rts)
    for c, vs in zip(rts, res4):
        sc = "E3-real-time-cold-buffer/unit-%s" % c["unit"]
        s_ = rep.scope(sc)
        s_["cases"] += 1
        s_["executions"] += 2
        rep.evaluations += 2
        for clause, cause, det in vs:
            rep.violation(clause, cause, c, det, sc)
    pairs = common.rotate(list(sim_pairs(tier)), seed)

    def work2(i, c):
        return judge_sim(c)
    res2, _ = engine.parallel_map(work2, pairs)
    for c, (vs, ok) in zip(pairs, res2):
        sc = "E1-simulated-pair/unit-%s" % c["unit"]
        s = rep.scope(sc)
        s["cases"] += 1
        s["executions"] += 2
        rep.evaluations += 1
        if ok:
            rep.nontrivial.add(len(rep.nontrivial))
        for clause, cause, det in vs:
            rep.violation(clause, cause, c, det, sc)
    rep.states = len(items) + len(pairs)
    rep.outcomes = {len(r) for r in res}
    rep.add_sample(items[0])
    rep.add_sample(items[-1])
    rep.extra["transitions_note"] = ("transitions = Config.parse_* calls "
                                     "(3 per configuration, 2 units)")
    rep.confirm = replay


def replay(payload):
    if payload.get("engine") == "E3-realtime":
        return [{"clause": a, "cause": b, "detail": c}
                for a, b, c in judge_realtime(payload)]
    if payload.get("engine") == "E3-offgrid":
        return [{"clause": a, "cause": b, "detail": c}
                for a, b, c in judge_offgrid(payload)]
    if payload.get("engine") == "E1-pair":
        return [{"clause": a, "cause": b, "detail": c}
                for a, b, c in judge_sim(payload)[0]]
    return [{"clause": a, "cause": b, "detail": c}
            for a, b, c in judge(payload)]
