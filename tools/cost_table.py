"""Print DESIGN section 10's table from the last run_all logs:
/tmp/runall.quick.Cxx.log and /tmp/runall.thorough.Cxx.log (summary lines)."""
import re, sys
def parse(t, p):
    try:
        line = [l for l in open("/tmp/runall.%s.%s.log" % (t, p)) if " %s:" % t in l][-1]
    except Exception:
        return None
    d = dict(re.findall(r"(\w+)=([\w.]+)", line))
    return d
def fmt(n):
    n = int(n)
    return "%.2f M" % (n / 1e6) if n >= 1e6 else "%.1f k" % (n / 1e3) if n >= 1e3 else str(n)
print("| | quick executions | quick wall | thorough executions | thorough wall | thorough exhaustive |")
print("|---|---|---|---|---|---|")
for i in range(1, 20):
    p = "C%02d" % i
    q, t = parse("quick", p), parse("thorough", p)
    print("| %s | %s | %s | %s | %s | %s |" % (
        p, fmt(q["executions"]) if q else "-", q["wall"] if q else "-",
        fmt(t["executions"]) if t else "-", t["wall"] if t else "-",
        t["exhaustive"] if t else "-"))
