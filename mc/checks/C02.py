"""C02 -- every machine is in exactly one pool; counts are true."""
from .. import e1, e2, monitors, world
from . import common

RULE = ("E2: breadth-first search over ALL operation histories (batch "
        "provision of 0/1/2/M+1 machines for 2 names, release, ingest "
        "provision demand 1-2 x duration 1-2, allocation on every machine "
        "for owner none/a/b x duration 1-2, time advance; 27+ operations) on "
        "a real Cluster with M machines up to the stated depth, with state "
        "matching on canonical snapshots (pools in order, live allocations, "
        "counters, plus resume point and canonicalised locals of every "
        "suspended generator); after every transition: pools are a "
        "permutation of the machines, each machine's pool matches its live "
        "activations, a refused call left the snapshot unchanged, the three "
        "reported counters equal the truth.  E1: the same partition/counter "
        "oracle after every event / at every boundary of the simulation "
        "scopes, and everything returned at the end of a completed run.  "
        "non-trivial = E2 transitions + E1 runs that returned")


def monitors_for(case):
    return [monitors.PoolPartition()]


class _Mark:
    def finish(self, run):
        if run.outcome == "returned":
            run.note("nontrivial")


def mons(case):
    return [monitors.PoolPartition(), _Mark()]


def e1_cases(tier, seed):
    lvl = "thorough" if tier == "thorough" else "quick"
    con = list(common.contend(lvl))
    bat = list(common.batch_scope(lvl))
    con3 = list(common.contend3(lvl))
    if tier != "thorough":
        con = common.thin(con, 3)
        bat = common.thin(bat, 2)
    out = common.add_algs(con + con3,
                          lambda c: common.shipped(c, lvl, "diag"))
    out += common.add_algs(bat, lambda c: common.batch_algs(c, lvl))
    out += common.add_algs(common.batch_seq_scope(lvl),
                           common.batch_seq_algs)
    out += common.add_algs(common.zero_comp_scope(lvl),
                           lambda c: common.shipped(c, lvl, "diag"))
    out += common.add_algs(common.zero_demand_scope(lvl), lambda c: [{"kind": "queue"}, {"kind": "batch", "p": 1, "min": 1}],
                           feasible_only=False)
    out += common.add_algs(common.wide_scope(lvl),
                           lambda c: common.wide_algs(c, lvl))
    return common.rotate(out, seed)


def run(rep, tier, seed):
    rep.rule = RULE
    rep.assumptions = [
        "free machines = machines not running a task (reserved-idle machines "
        "count as free), the reading C12 spells out",
        "not demanded: which calls must be refused (only that a refusal is "
        "clean), nor the reservation counter mid-run"]
    plan = [(2, 6), (3, 3)] if tier != "thorough" else [(2, 8), (3, 5)]
    nontriv = 0
    # (+ the same search on machines whose distinct ids differ only in
    # letter case or surrounding blanks)
    plan = [(M, d, None) for M, d in plan] + \
        [(3, 3 if tier != "thorough" else 5, "case")]
    for M, depth, ids in plan:
        e2.ID_STYLE = ids
        try:
            stats, viols = e2.bfs_parallel(M, depth)
        finally:
            e2.ID_STYLE = None
        sc = rep.scope("E2-cluster-M%d-depth%d%s" % (
            M, depth, "-%s-ids" % ids if ids else ""))
        sc["cases"] = stats["states"]
        sc["executions"] = stats["transitions"]
        sc["levels"] = stats["levels"]
        sc["refused_transitions"] = stats["refused"]
        rep.evaluations += stats["transitions"]
        rep.transitions += stats["transitions"]
        rep.extra["e2_states"] = rep.extra.get("e2_states", 0) + \
            stats["states"]
        nontriv += stats["transitions"]
        if not stats["complete"]:
            rep.cap("E2 M=%d stopped early" % M)
        for (clause, cause, detail), hist in viols:
            if clause.startswith("C02."):
                rep.violation(clause, cause,
                              {"engine": "E2", "M": M, "ids": ids,
                               "history": [list(h) for h in hist]},
                              detail, sc and "E2-cluster-M%d" % M)
        for h in stats.get("sample_histories", [])[-1:]:
            rep.add_sample({"engine": "E2", "M": M, "history": h,
                            "note": "one of the deepest operation histories "
                            "expanded by this run (reached a new state)"})
    e2_states = rep.extra.get("e2_states", 0)
    cs = e1_cases(tier, seed)
    e1.sweep(rep, cs, mons, {"tie": 1}, tie=True)
    rep.nontrivial = (rep.nontrivial if isinstance(rep.nontrivial, int)
                      else 0) + nontriv
    rep.states = len(rep.states) + e2_states
    e1.conformance(rep, cs[::max(1, len(cs) // 40)])
    conf = rep.confirm

    def confirm(payload):
        if payload.get("engine") == "E2":
            return replay(payload)
        return conf(payload)
    rep.confirm = confirm


def replay(payload):
    if payload.get("engine") == "E2":
        e2.ID_STYLE = payload.get("ids")
        try:
            vs = e2.replay_history(payload["M"],
                                   [tuple(h) for h in payload["history"]])
        finally:
            e2.ID_STYLE = None
        return [{"clause": a, "cause": b, "detail": c} for a, b, c in vs
                if a.startswith("C02.")]
    vs, _ = e1.replay_payload(payload, monitors_for)
    return vs
