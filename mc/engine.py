"""Exploration engines, worker pool and result aggregation.

E1  explore_case(): stateless deviation-bounded exploration of one static
    case over its dynamic choice points (delays, adversarial proposals, tie
    promotions), every execution on fresh real objects.
E2/E3 live in the oracle modules that need them; they report through the
    same Reporter.
"""
import itertools
import json
import multiprocessing as mp
import os
import sys
import time
import traceback

from . import run as runmod
from .seams import HarnessError

NPROC = int(os.environ.get("VERIF_NPROC", "0")) or min(16, os.cpu_count() or 1)


def _state_key(snap):
    s = dict(snap)
    s.pop("t", None)
    s.pop("stored_times", None)
    return hash(runmod.freeze(s))


class StateCounter:
    """Monitor: counts distinct boundary states (reporting only)."""

    def __init__(self, sink):
        self.sink = sink

    def on_boundary(self, run, t):
        snap = run.bsnaps.get(t)
        if snap is None:
            snap = run.bsnaps[t] = runmod.snapshot(run.sim)
        self.sink.add(_state_key(snap))


def cost_ok(points, i, alt_kind, budgets):
    """May point i deviate, given deviations already taken before i?"""
    used = {}
    for k, _, c, _ in points[:i]:
        if c:
            used[k] = used.get(k, 0) + 1
    return used.get(alt_kind, 0) + 1 <= budgets.get(alt_kind, 0)


def explore_case(case, make_monitors, budgets=None, horizon=None, light=True,
                 tie=False, on_run=None, max_runs=200000, keep_snaps=True):
    """Iterative-deviation-bounding DFS over choice prefixes of one case.

    Returns (n_runs, capped).  ``on_run(run, prefix)`` sees every execution.
    """
    budgets = budgets or {}
    stack = [()]
    n = 0
    capped = False
    while stack:
        prefix = stack.pop()
        mons = make_monitors(case)
        r = runmod.execute(case, mons, prefix, horizon, light, tie,
                           keep_snaps=keep_snaps)
        n += 1
        if on_run:
            on_run(r, prefix)
        pts = r.points
        if len(pts) < len(prefix):
            raise HarnessError("replay of prefix %r met only %d choice "
                               "points" % (prefix, len(pts)))
        ext = []
        for i in range(len(prefix), len(pts)):
            kind, arity, c, _ = pts[i]
            if arity < 2 or not cost_ok(pts, i, kind, budgets):
                continue
            base = tuple(p[2] for p in pts[:i])
            for alt in range(1, arity):
                ext.append(base + (alt,))
        stack.extend(reversed(ext))
        if n >= max_runs:
            capped = bool(stack)
            break
    return n, capped


# --------------------------------------------------------------------------
# Pool
# --------------------------------------------------------------------------

_WORK = {}


def _worker(args):
    key, lo, hi = args
    fn, items = _WORK[key]
    sys.stdout = open(os.devnull, "w")
    out = []
    try:
        for i in range(lo, hi):
            out.append(fn(i, items[i]))
        return ("ok", lo, out)
    except HarnessError as e:
        return ("harness", lo, "%s\n%s" % (e, traceback.format_exc()))
    except BaseException as e:            # harness bug
        return ("harness", lo, "%r\n%s" % (e, traceback.format_exc()))


def parallel_map(fn, items, chunk=None, nproc=None, progress=None,
                 deadline=None, heavy_first=None):
    """Ordered-by-index results of fn(i, item) over a forked pool.
    Returns (results list (None where not done), completed_all)."""
    items = list(items)
    n = len(items)
    res = [None] * n
    if n == 0:
        return res, True
    nproc = nproc or NPROC
    key = id(items)
    _WORK[key] = (fn, items)
    if chunk is None:
        chunk = 1 if n <= 30000 else 4
    jobs = [(key, lo, min(n, lo + chunk)) for lo in range(0, n, chunk)]
    # deterministic interleaving so that expensive neighbouring cases do not
    # all land at the end of the run
    jobs.sort(key=lambda j: (j[1] * 2654435761) % 4294967296)
    if heavy_first is not None:
        jobs.sort(key=lambda j: 0 if any(heavy_first(items[i]) for i in
                                         range(j[1], j[2])) else 1)
    complete = True
    try:
        if nproc == 1 or n <= 2:
            save = sys.stdout
            for j in jobs:
                st, lo, out = _worker(j)
                sys.stdout = save
                if st != "ok":
                    raise HarnessError(out)
                res[lo:lo + len(out)] = out
                if deadline and time.time() > deadline:
                    complete = (lo + len(out) >= n)
                    break
            sys.stdout = save
        else:
            ctx = mp.get_context("fork")
            with ctx.Pool(nproc) as pool:
                done = 0
                for st, lo, out in pool.imap_unordered(_worker, jobs):
                    if st != "ok":
                        pool.terminate()
                        raise HarnessError(out)
                    res[lo:lo + len(out)] = out
                    done += len(out)
                    if progress:
                        progress(done, n)
                    if deadline and time.time() > deadline and done < n:
                        complete = False
                        pool.terminate()
                        break
    finally:
        _WORK.pop(key, None)
    return res, complete


def product_dicts(**axes):
    keys = list(axes)
    for combo in itertools.product(*[axes[k] for k in keys]):
        yield dict(zip(keys, combo))
