#!/bin/sh
# run every check's quick (or $1) tier; summary at the end
T="${1:-quick}"
cd "$(dirname "$0")/.."
for p in C01 C02 C03 C04 C05 C06 C07 C08 C09 C10 C11 C12 C13 C14 C15 C16 C17 C18 C19; do
  /venv/bin/python check.py $p --tier $T > /tmp/runall.$T.$p.log 2>&1
  echo "$p rc=$? $(tail -1 /tmp/runall.$T.$p.log | cut -c1-200)"
  grep -E "^(VIOLATION|KNOWN-FINDING|HARNESS)" /tmp/runall.$T.$p.log | cut -c1-220
done
