"""C04 -- everything runs exactly once; a completed run is quiescent."""
from .. import e1, monitors, world, run as runmod
from . import common

RULE = ("E1: S-contend, S-contend3, S-buffer, S-plan x shipped pairings and "
        "adversarial algorithms (<=1/2 illegal proposals) x tie promotions x "
        "delays; oracle at start() return: every observation W->R->F once, "
        "every ingest/workflow task exactly one do_work activation, "
        "quiescent state, task table rows == executed tasks; non-trivial = "
        "run returned with >=2 observations")


def monitors_for(case):
    return [monitors.ExactlyOnce()]


def cases(tier, seed):
    lvl = "thorough" if tier == "thorough" else "quick"
    out = []
    base = list(common.contend(lvl)) + list(common.contend3(lvl))
    buf = list(common.buffer_scope(lvl))
    plan = list(common.plan_scope(lvl))
    if tier != "thorough":
        base = common.thin(base, 2)
        buf = common.thin(buf, 3)
        plan = common.thin(plan, 3)
    else:
        base = common.thin(base, 2)
        plan = common.thin(plan, 2)
    for sc, c in common.add_algs(base + buf + plan,
                                 lambda c: common.shipped(c, lvl, "diag")):
        c = dict(c)
        c["delay"] = {"mode": "choice", "arity": 3}
        out.append((sc + "/shipped", c))
    bat = common.thin(common.batch_scope(lvl), 4 if tier != "thorough" else 1)
    for sc, c in common.add_algs(bat, lambda c: common.batch_algs(c, lvl)):
        out.append((sc, c))
    for sc, c in common.add_algs(common.ids_scope(lvl),
                                 lambda c: common.shipped(c, lvl, "diag")):
        out.append((sc, c))
    for sc, c in common.add_algs(common.batch_seq_scope(lvl),
                                 common.batch_seq_algs):
        out.append((sc, c))
    for sc, c in common.add_algs(common.zero_comp_scope(lvl),
                                 lambda c: common.shipped(c, lvl, "diag")):
        out.append((sc, c))
    for sc, c in common.add_algs(common.zero_demand_scope(lvl), lambda c: [{"kind": "queue"}, {"kind": "batch", "p": 1, "min": 1}],
                                 feasible_only=False):
        out.append((sc, c))
    for sc, c in common.add_algs(common.wide_scope(lvl),
                                 lambda c: common.wide_algs(c, lvl)):
        out.append((sc, dict(c, delay={"mode": "choice", "arity": 3})))
    from . import C19
    out += C19.zero_volume_cases()
    adv = common.thin(base, 5) if tier != "thorough" else common.thin(base, 6)
    for sc, c in adv:
        for alg in ({"kind": "advqueue"}, {"kind": "advbatch", "p": 2,
                                           "min": 1}):
            cc = dict(c)
            cc["alg"] = dict(alg, budget=2 if tier == "thorough" else 1)
            if world.feasible(cc):
                out.append((sc + "/adversary", cc))
    # elastic user algorithms: no illegal proposal, but one extra call of the
    # documented Cluster.provision_batch_resources for the workflow
    for sc, c in common.thin(adv, 2):
        for alg in ({"kind": "advbatch", "p": 2, "min": 1},
                    {"kind": "advbatch", "p": 1, "min": 1},
                    {"kind": "advqueue"}):
            cc = dict(c)
            cc["alg"] = dict(alg, budget=0, api=True)
            cc["budget_override"] = {"adv": 0, "api": 1, "tie": 0}
            if world.feasible(cc):
                out.append((sc + "/elastic", cc))
            # ... and one that leaves the release of its reservation to
            # the Scheduler, as the Cluster documentation allows
            cd = dict(c)
            cd["alg"] = dict(alg, budget=0, api="norelease")
            cd["budget_override"] = {"adv": 0, "api": 1, "tie": 0}
            if world.feasible(cd):
                out.append((sc + "/elastic-no-self-release", cd))
    # a run after ANOTHER simulation of the same process (same plan one step
    # later: other hand-over clocks, hence other task ids; complete, or
    # abandoned at k): nothing of the earlier one may show up in this one
    for sc, c in common.thin(
            common.add_algs(common.thin(base, 6), lambda c: [
                {"kind": "queue"}, {"kind": "batch", "p": 1, "min": 1}]), 1):
        later = dict(c, cfg=dict(c["cfg"], obs=[
            dict(o, start=o["start"] + 1) for o in c["cfg"]["obs"]]))
        out.append((sc + "/after-another-run", dict(c, before=[later])))
        out.append((sc + "/after-an-abandoned-run",
                    dict(c, before=[dict(later, runtime=4)])))
    if tier == "thorough":
        out = [(sc, dict(c, budget_override=dict(
            common.thorough_override(c, i), **c.get("budget_override", {}))))
            for i, (sc, c) in enumerate(out)]
    return common.rotate(out, seed)


def run(rep, tier, seed):
    rep.rule = RULE
    rep.assumptions = [
        "runs that raise or hit the horizon are judged by C05, not here "
        "(except that nothing may have run twice before the error)",
        "static planning side is EnumeratedStaticPlanning"]
    cs = cases(tier, seed)
    budgets = ({"delay": 2, "adv": 2, "tie": 1} if tier == "thorough"
               else {"delay": 1, "adv": 1, "tie": 1})
    if True:
        every = 12 if tier != "thorough" else 2
        cs2 = []
        for k, (sc, c) in enumerate(cs):
            if c.get("delay") and not common.keep(k, every):
                c = dict(c)
                c.pop("delay", None)
            cs2.append((sc, c))
        cs = cs2
    e1.sweep(rep, cs, monitors_for, budgets, tie=True)
    # FULL-mode conformance + the returned task table itself
    sub = [x for x in cs if not x[1].get("delay")
           and not x[1]["alg"]["kind"].startswith("adv")]
    sub = sub[::max(1, len(sub) // (200 if tier == "thorough" else 40))]
    e1.conformance(rep, sub)
    from .. import engine

    def full_table(i, item):
        sc, case = item
        r = runmod.execute(case, (), (), e1.horizon_of(case), light=False)
        if r.outcome != "returned":
            return None
        rows = sorted(r.ret[1].index)
        executed = sorted(a["task"] for a in r.probe.acts
                          if a["kind"] == "do_work")
        return None if rows == executed else (rows, executed)
    res, _ = engine.parallel_map(full_table, sub)
    for (sc, case), bad in zip(sub, res):
        if bad:
            rep.violation("C04.task-table", "returned-table-rows-differ",
                          {"engine": "E1", "case": case, "prefix": [],
                           "light": False,
                           "horizon": e1.horizon_of(case)},
                          {"rows": bad[0], "executed": bad[1]}, sc)

    rep.confirm = replay


def replay(payload):
    if payload.get("light") is False:
        case = payload["case"]
        r = runmod.execute(case, (), (), payload.get("horizon"), light=False)
        if r.outcome == "returned":
            rows = sorted(r.ret[1].index)
            executed = sorted(a["task"] for a in r.probe.acts
                              if a["kind"] == "do_work")
            if rows != executed:
                return [{"clause": "C04.task-table",
                         "cause": "returned-table-rows-differ",
                         "detail": {"rows": rows, "executed": executed}}]
        return []
    vs, _ = e1.replay_payload(payload, monitors_for)
    return vs
