"""C06 -- task runtime = work / machine speed, at least one step."""
import itertools

from .. import e1, monitors, world, engine, seams
from ..seams import ProbeEnvironment, Probe, ScriptedDelay, _Script
from ..scopes import mkobs, mkcfg, mkcase, dag, CLUSTERS
from . import common, C03

from topsim.core.config import Config
from topsim.core.cluster import Cluster
from topsim.core.task import Task
from topsim.core.instrument import Observation

RULE = ("E3 (unit): real Task on a real Cluster/Machine driven through "
        "allocate_task_to_cluster for ALL comp x data x cpu x bw x injected "
        "delay x timestep unit of the stated ranges, and ingest tasks for all "
        "durations x demands; oracle: aft-ast == max(1, max(floor(comp/cpu), "
        "floor(data/bw)) + delay), machine held exactly that long, observed "
        "table monotone in work and in machine speed.  E1 (trajectory): the "
        "same equation for every task of every run of the C03 scopes.  "
        "non-trivial = a task completed")


def unit_case(comp, data, cpu, bw, d, unit):
    return {"engine": "E3", "kind": "task", "comp": comp, "data": data,
            "cpu": cpu, "bw": bw, "delay": d, "unit": unit}


_CLUSTERS = {}


def _cluster_cfg(cpu, bw, unit, n=1):
    cfg = mkcfg([[cpu, bw]] * n, [mkobs("a", 0, 60 if unit == "minutes"
                                        else (unit if isinstance(unit, int)
                                              else 1), 1, 1, 1, "wa")],
                timestep=unit)
    return world.materialise(mkcase(cfg, {"wa": dag("single", [1])}))


def run_unit(c):
    """-> dict(ast, aft, released, expected) for one unit case."""
    if c.get("before"):
        # an earlier task with the same demands on a machine of the same
        # name but another speed/unit, in the same process: what the first
        # computed must not reach the second
        for b in c["before"]:
            run_unit(dict({k: v for k, v in c.items() if k != "before"},
                          **b))
    f = world.unit_factor(c["unit"])
    path = _cluster_cfg(c["cpu"], c["bw"], c["unit"])
    probe = Probe()
    env = ProbeEnvironment(probe)
    cluster = Cluster(env, Config(path))
    m = cluster.machines[0]
    probe.horizon = 400
    if c.get("prior") is not None:
        # an earlier task on the SAME machine object: what it leaves behind
        # on the machine must not change the next task's runtime
        t0 = Task("x_0_p", 0, 0, m.id, [], c["prior"], 0, {},
                  ScriptedDelay(_Script(probe, "table", {})))
        env.process(cluster.allocate_task_to_cluster(t0, m))
        try:
            while env._queue:
                env.step()
        except Exception as e:
            return {"error": "prior task: %r" % (e,)}
    script = _Script(probe, "table", {"#0": c["delay"]} if c.get("prior")
                     is None else {"#1": c["delay"]})
    t = Task("x_0_0", 0, 0, m.id, [], c["comp"], c["data"], {},
             ScriptedDelay(script))
    env.process(cluster.allocate_task_to_cluster(t, m))
    try:
        while env._queue:
            env.step()
    except seams.HorizonReached:
        return {"error": "never released"}
    except Exception as e:
        return {"error": repr(e)}
    al = [a for a in probe.acts if a["kind"] == "alloc"][-1]
    nominal = max(int(c["comp"] / (c["cpu"] * f)),
                  int(c["data"] / (c["bw"] * f)))
    return {"ast": t.ast, "aft": t.aft, "released": al["t1"],
            "expected": max(1, nominal + c["delay"]), "nominal": nominal,
            "events": probe.n_events,
            "pool_ok": (m in cluster._resources['available']
                        and not cluster._resources['occupied'])}


def run_ingest(c):
    path = _cluster_cfg(1, 1, "seconds", n=c["machines"])
    probe = Probe()
    env = ProbeEnvironment(probe)
    cluster = Cluster(env, Config(path))
    obs = Observation("a", 0, c["dur"], 1, "none", 1)
    env.process(cluster.provision_ingest_resources(c["demand"], obs))
    probe.horizon = 100
    try:
        while env._queue:
            env.step()
    except seams.HorizonReached:
        return {"error": "never released"}
    except Exception as e:
        return {"error": repr(e)}
    out = []
    for a in probe.acts:
        if a["kind"] == "alloc":
            t = a["task_obj"]
            out.append((t.ast, t.aft, a["t1"]))
    return {"tasks": out, "events": probe.n_events,
            "pool_ok": len(cluster._resources['available']) == c["machines"]}


def judge_unit(c, r):
    vs = []
    if "error" in r:
        return [("C06.recorded-runtime", "unit:error", r)]
    R = r["expected"]
    nom = ("0" if r["nominal"] == 0 else "1" if r["nominal"] == 1 else
           "2" if r["nominal"] == 2 else ">=3")
    if (r["aft"] - r["ast"]) != R:
        vs.append(("C06.recorded-runtime", "nominal-runtime=%s:%s" % (
            nom, "longer" if r["aft"] - r["ast"] > R else "shorter"), r))
    if r["released"] is None or (r["released"] - r["ast"]) != R:
        vs.append(("C06.occupancy", "nominal-runtime=%s:held-%s" % (
            nom, "longer" if (r["released"] or 1e9) - r["ast"] > R
            else "shorter"), r))
    if not r["pool_ok"]:
        vs.append(("C06.occupancy", "machine-not-returned", r))
    return vs


def domain(tier):
    if tier == "thorough":
        comps, cpus, ds = range(0, 17), range(1, 7), range(0, 4)
    else:
        comps, cpus, ds = range(0, 9), range(1, 5), range(0, 4)
    units = ("seconds", "minutes", 2)
    for unit in units:
        f = world.unit_factor(unit)
        cs = sorted({k * f + r for k in comps for r in (0, f // 2)})
        for comp, data, cpu, bw, d in itertools.product(
                cs, cs if tier == "thorough" or unit == "seconds"
                else cs[::3], cpus, cpus, ds):
            yield unit_case(comp, data, cpu, bw, d, unit)


def speed_sweep(tier):
    """Every machine speed (and, separately, bandwidth) 1..N and the speeds
    of the repository's own configurations x every exact multiple k*speed,
    k <= 12, and the value just below it: floor(work/speed) at the points
    where an inexact quotient would be off by one."""
    N = 512 if tier == "thorough" else 200
    speeds = list(range(1, N + 1)) + [600, 2940, 5040, 6000, 7000, 11000,
                                      35000]
    for c in speeds:
        for k in range(0, 13):
            for r in ((0, -1) if k else (0,)):
                w = k * c + r
                yield unit_case(w, 0, c, 1, 0, "seconds")
                yield unit_case(0, w, 1, c, 0, "seconds")


def fractional_domain(tier):
    """speeds and demands that are not whole numbers (a system described in
    TFLOP/s): the demand an exact multiple of the speed, after an earlier
    task on the same machine"""
    speeds = (0.3, 0.6, 0.9, 1.2, 0.1, 0.7, 2.5)
    for cpu in speeds:
        for k in range(0, 9 if tier != "thorough" else 17):
            for prior in (None, 1.5, 0.7, 2.1):
                comp = k * cpu
                c = unit_case(comp, 0, cpu, 1, 0, "seconds")
                c["prior"] = prior
                yield c


def history_domain(tier):
    """Two-step histories: the same (comp, data, delay) first on a machine of
    the same id with another speed, bandwidth or timestep unit."""
    base = [c for i, c in enumerate(domain(tier))
            if c["delay"] == 0 and common.keep(i, 2 if tier == "thorough"
                                               else 6)]
    for c in base:
        alts = [{"cpu": 1 if c["cpu"] > 1 else 4},
                {"bw": 1 if c["bw"] > 1 else 4},
                {"cpu": c["cpu"] + 3, "bw": c["bw"] + 3},
                {"unit": "seconds" if c["unit"] != "seconds" else 2}]
        for b in alts:
            yield dict(c, before=[b])


def monitors_for(case):
    return [monitors.Runtime()]


def run(rep, tier, seed):
    rep.rule = RULE
    rep.assumptions = ["delay model output injected through the "
                       "generate_delay seam (ScriptedDelay)"]
    items = common.rotate(list(domain(tier)) + list(history_domain(tier))
                          + list(speed_sweep(tier))
                          + list(fractional_domain(tier)), seed)

    def work(i, c):
        r = run_unit(c)
        return r, judge_unit(c, r)
    res, _ = engine.parallel_map(work, items, chunk=500)
    table = {}
    sc = rep.scope("E3-task-unit")
    for c, (r, vs) in zip(items, res):
        sc["cases"] += 1
        sc["executions"] += 1
        rep.evaluations += 1
        rep.transitions += r.get("events", 0)
        if "prior" in c:
            sc = rep.scope("E3-task-unit/fractional-speeds")
            sc["cases"] += 1
            sc["executions"] += 1 + (c["prior"] is not None)
            sc = rep.scope("E3-task-unit")
        elif c["cpu"] > 16 or c["bw"] > 16:
            sc = rep.scope("E3-task-unit/speed-sweep")
            sc["cases"] += 1
            sc["executions"] += 1
            sc = rep.scope("E3-task-unit")
        elif c.get("before"):
            sc = rep.scope("E3-task-unit/after-another-machine-of-same-id")
            sc["cases"] += 1
            sc["executions"] += 2
            sc = rep.scope("E3-task-unit")
        elif "error" not in r:
            table[(c["unit"], c["delay"], c["cpu"], c["bw"], c["comp"],
                   c["data"])] = r["aft"] - r["ast"]
            rep.states.add(hash((c["unit"], c["delay"], c["cpu"], c["bw"],
                                 c["comp"], c["data"])))
        for clause, cause, det in vs:
            rep.violation(clause, cause, c, det, "E3-task-unit")
    # monotonicity over the observed table
    nmono = 0
    for (unit, d, cpu, bw, comp, data), rt in table.items():
        f = world.unit_factor(unit)
        for other in ((unit, d, cpu, bw, comp + f, data),
                      (unit, d, cpu, bw, comp, data + f)):
            if other in table:
                nmono += 1
                if table[other] < rt:
                    rep.violation(
                        "C06.monotone", "more-work-finished-sooner",
                        unit_case(other[4], other[5], cpu, bw, d, unit),
                        {"less_work": [comp, data, rt],
                         "more_work": [other[4], other[5], table[other]]},
                        "E3-task-unit")
        for other in ((unit, d, cpu + 1, bw, comp, data),
                      (unit, d, cpu, bw + 1, comp, data)):
            if other in table:
                nmono += 1
                if table[other] > rt:
                    rep.violation(
                        "C06.monotone", "faster-machine-finished-later",
                        unit_case(comp, data, other[2], other[3], d, unit),
                        {"slower": [cpu, bw, rt],
                         "faster": [other[2], other[3], table[other]]},
                        "E3-task-unit")
    rep.extra["monotonicity_pairs_compared"] = nmono
    rep.add_sample({"unit_case": items[len(items) // 2],
                    "observed": res[len(items) // 2][0]})
    # ingest tasks
    sc = rep.scope("E3-ingest-unit")
    for dur in range(1, 7 if tier == "thorough" else 5):
        for demand in (1, 2, 3):
            c = {"engine": "E3", "kind": "ingest", "dur": dur,
                 "demand": demand, "machines": 3}
            r = run_ingest(c)
            sc["cases"] += 1
            sc["executions"] += 1
            rep.evaluations += 1
            rep.transitions += r.get("events", 0)
            for v in judge_ingest(c, r):
                rep.violation(v[0], v[1], c, v[2], "E3-ingest-unit")
    rep.nontrivial = 0
    # trajectory part on the C03 scopes
    cs = C03.cases(tier, seed)
    if tier != "thorough":
        # (an odd stride: the list alternates dynamic/greedy per assignment)
        cs = [(s, c if common.keep(i, 4) else
               {k: v for k, v in c.items() if k != "delay"})
              for i, (s, c) in enumerate(cs)]
        cs = [x for i, x in enumerate(cs) if not common.keep(i, 3)]
    # observations that start late (arrays, ingest limit or machines are
    # contended): an ingest task still runs for exactly the duration
    late = common.add_algs(
        common.thin(common.plan_scope(tier), 1 if tier == "thorough" else 5),
        lambda c: [{"kind": "queue"}, {"kind": "batch", "p": 1, "min": 1}])
    cs = cs + late
    e1.sweep(rep, cs, monitors_for,
             {"delay": 2 if tier == "thorough" else 1})
    rep.nontrivial += len(table)
    # the RECORD is the task table the simulation returns: on a subset (FULL
    # mode, preferring workflows with fractional transfer waits) every row's
    # start and finish must equal the Task object's
    def frac(c):
        return any((e[2] % 2) for w in c["wfs"].values() for e in w["edges"])
    sub = [x for x in cs if not x[1].get("delay") and frac(x[1])]
    sub = sub[::max(1, len(sub) // (120 if tier == "thorough" else 24))]

    def tw(i, item):
        return table_vs_tasks(item[1])
    tres, _ = engine.parallel_map(tw, sub)
    for (sc, case), (vs, nfrac) in zip(sub, tres):
        s_ = rep.scope("FULL-task-table-vs-tasks")
        s_["cases"] += 1
        s_["executions"] += 1
        s_["rows_with_fractional_times"] = s_.get(
            "rows_with_fractional_times", 0) + nfrac
        rep.evaluations += 1
        for clause, cause, det in vs:
            rep.violation(clause, cause, {"engine": "FULL-table",
                                          "case": case}, det,
                          "FULL-task-table-vs-tasks")
    conf = rep.confirm

    def confirm(payload):
        if payload.get("engine") in ("E3", "FULL-table"):
            return replay(payload)
        return conf(payload)
    rep.confirm = confirm


def table_vs_tasks(case):
    from .. import run as runmod, full
    r = runmod.execute(case, (), (), e1.horizon_of(case), light=False)
    if r.outcome != "returned":
        return [], 0
    rows = full.task_rows(r.sim._generate_final_task_data())
    objs = runmod.task_table(r.sim)
    vs, nfrac = [], 0
    for tid, (ast, aft, fin) in objs.items():
        row = rows.get(str(tid))
        if ast != int(ast) or aft != int(aft):
            nfrac += 1
        if row is None:
            continue                       # C04's business
        if row.get("ast") != ast or row.get("aft") != aft:
            vs.append(("C06.recorded-runtime",
                       "task-table-differs-from-task",
                       {"task": str(tid), "table": [row.get("ast"),
                                                    row.get("aft")],
                        "task_object": [ast, aft]}))
            break
    return vs, nfrac


def judge_ingest(c, r):
    if "error" in r:
        return [("C06.recorded-runtime", "ingest:error", r)]
    vs = []
    if len(r["tasks"]) != c["demand"]:
        vs.append(("C06.recorded-runtime", "ingest:wrong-task-count", r))
    for ast, aft, rel in r["tasks"]:
        if aft - ast != c["dur"]:
            vs.append(("C06.recorded-runtime", "ingest:%s" % (
                "longer" if aft - ast > c["dur"] else "shorter"), r))
            break
        if rel is None or rel - ast != c["dur"]:
            vs.append(("C06.occupancy", "ingest-duration%s:held-%s" % (
                ">=3" if c["dur"] >= 3 else "<3",
                "longer" if (rel or 1e9) - ast > c["dur"] else "shorter"),
                r))
            break
    if not r["pool_ok"]:
        vs.append(("C06.occupancy", "machine-not-returned", r))
    return vs


def replay(payload):
    if payload.get("engine") == "FULL-table":
        return [{"clause": a, "cause": b, "detail": c}
                for a, b, c in table_vs_tasks(payload["case"])[0]]
    if payload.get("engine") == "E3":
        if payload["kind"] == "ingest":
            vs = judge_ingest(payload, run_ingest(payload))
        else:
            vs = judge_unit(payload, run_unit(payload))
            # monotonicity witnesses: re-evaluate the neighbours
            f = world.unit_factor(payload["unit"])
            me = run_unit(payload)
            if "error" not in me:
                rt = me["aft"] - me["ast"]
                for dc, dd in ((f, 0), (0, f)):
                    if payload["comp"] - dc >= 0 and payload["data"] - dd >= 0:
                        o = run_unit(dict(payload, comp=payload["comp"] - dc,
                                          data=payload["data"] - dd))
                        if "error" not in o and o["aft"] - o["ast"] > rt:
                            vs.append(("C06.monotone",
                                       "more-work-finished-sooner", None))
                for dcpu, dbw in ((1, 0), (0, 1)):
                    if payload["cpu"] - dcpu >= 1 and payload["bw"] - dbw >= 1:
                        o = run_unit(dict(payload, cpu=payload["cpu"] - dcpu,
                                          bw=payload["bw"] - dbw))
                        if "error" not in o and o["aft"] - o["ast"] < rt:
                            vs.append(("C06.monotone",
                                       "faster-machine-finished-later",
                                       None))
        return [{"clause": a, "cause": b, "detail": c} for a, b, c in vs]
    vs, _ = e1.replay_payload(payload, monitors_for)
    return vs
