"""C17 -- plan-following scheduling keeps every task on its planned machine."""
from .. import e1, monitors, world
from ..scopes import mkobs, mkcfg, mkcase, dag, CLUSTERS
from . import common

RULE = ("E1: ALL task->machine assignments of catalogue DAGs (<=4 nodes) on "
        "M in {2,3} heterogeneous machines x contention from the ingest of a "
        "second observation (1-2 machines, durations 1..3) and its workflow "
        "planned onto the same machines x delays <=1/2; oracle: machine of "
        "every allocation/do_work activation == machine recorded at planning "
        "time and the plan entry never changes; plus histories in which ONE "
        "policy object drives two simulations with different static plans "
        "(every ordered pair of distinct assignments of a small workflow; "
        "quick: thinned to ~60 per DAG); non-trivial = a plan existed")


def monitors_for(case):
    return [monitors.PlannedMachine(), monitors.PlannedMachineWait()]


def cases(tier, seed):
    out = []
    dags = [("chain2", dag("chain2", [1, 2], [1])),
            ("indep2", dag("indep2", [2, 1])),
            ("fork", dag("fork", [1, 2, 1], [2, 0])),
            ("join", dag("join", [1, 2, 1], [1, 3])),
            ("diamond", dag("diamond", [1, 2, 3, 1], [1, 2, 0, 3])),
            # structural nodes (no compute, no data: planned est == eft)
            ("fork-zero", dag("fork", [1, 0, 2], [0, 0])),
            ("join-zero", dag("join", [2, 1, 0], [0, 0])),
            # two parallel branches: one falls behind the plan (delay,
            # contention) while a later-sorted task of the other is ready
            ("chains22", dag("chains22", [1, 1, 1, 1], [0, 0])),
            ("chains22-uneven", dag("chains22", [2, 1, 1, 2], [1, 0]))]
    wb = dag("single", [2])
    wb2 = dag("chain2", [1, 1], [1])
    clusters = [CLUSTERS[2][1], CLUSTERS[2][2], CLUSTERS[3][1]]
    for machines in clusters:
        M = len(machines)
        for label, wa in dags:
            for s2, d2, ing in ((1, 1, 1), (2, 3, 1), (2, 2, 2), (3, 2, 1),
                                (1, 3, 2)):
                if ing > M:
                    continue
                for wbx in ((wb,) if tier != "thorough" else (wb, wb2)):
                    obs = [mkobs("a", 0, 1, 1, 1, 1, "wa"),
                           mkobs("b", s2, d2, 1, 1, ing, "wb")]
                    cfg = mkcfg(machines, obs, (100, 10), (100, 10), 2, 2)
                    case = mkcase(cfg, {"wa": wa, "wb": wbx})
                    n = len(wa["nodes"]) + len(wbx["nodes"])
                    if M ** n > (2200 if tier == "thorough" else 250):
                        # all assignments of workflow a, b pinned to m0/m1
                        algs = []
                        for a in common.scopes.assignments(
                                mkcase(dict(cfg, obs=obs[:1]), {"wa": wa})):
                            for bm in range(M):
                                aa = dict(a)
                                aa["b"] = {str(x[0]): bm
                                           for x in wbx["nodes"]}
                                algs.append({"kind": "dynamic",
                                             "assign": aa})
                    else:
                        algs = common.static_algs(case, ("dynamic",), "all")
                    for k, alg in enumerate(algs):
                        c = dict(case)
                        c["alg"] = alg
                        c["delay"] = {"mode": "choice", "arity": 3}
                        out.append(("S-static-M%d/%s" % (M, label), c))
                        if common.keep(k, 3) and label in (
                                "join", "diamond", "fork", "chains22"):
                            # behaviour must not depend on who is listening
                            # to the library's loggers
                            out.append(("S-static-M%d-debug-logging/%s"
                                        % (M, label),
                                        dict(c, loglevel="DEBUG")))
                        if common.keep(k, 4):
                            # machine ids numbered per category (two
                            # machines share a number), as in the repo's
                            # own configuration files
                            cc = dict(c)
                            cc["cfg"] = dict(cfg, mids=world.percat_ids(M))
                            out.append(("S-static-M%d-percat-ids/%s"
                                        % (M, label), cc))
    # one policy object drives two simulations whose static plans differ:
    # every ordered pair of distinct assignments of a small workflow
    for machines in (CLUSTERS[2][1], CLUSTERS[3][1]):
        M = len(machines)
        for label, wa in dags[:3] + ([dags[3]] if tier == "thorough" else []):
            obs = [mkobs("a", 0, 1, 1, 1, 1, "wa")]
            cfg = mkcfg(machines, obs, (100, 10), (100, 10), 2, 2)
            case = mkcase(cfg, {"wa": wa})
            asgs = common.scopes.assignments(case)
            for kind in ("dynamic",):
                pairs = [(a, b) for a in asgs for b in asgs if a != b]
                if tier != "thorough":
                    pairs = common.thin(pairs, max(1, len(pairs) // 60))
                for a, b in pairs:
                    first = dict(case, alg={"kind": kind, "assign": a,
                                            "reuse": "p"})
                    c = dict(case, alg={"kind": kind, "assign": b,
                                        "reuse": "p"}, before=[first])
                    out.append(("S-policy-object-reused-%s/%s"
                                % (kind, label), c))
    return common.rotate(out, seed)


def run(rep, tier, seed):
    rep.rule = RULE
    rep.assumptions = ["static plans are enumerated assignments with list-"
                       "schedule est/eft (over-approximates HEFT/FCFS)"]
    cs = cases(tier, seed)
    budgets = {"delay": 2 if tier == "thorough" else 1}
    if tier != "thorough":
        cs2 = []
        for k, (sc, c) in enumerate(cs):
            if not common.keep(k, 6):
                c = dict(c)
                c.pop("delay", None)
            cs2.append((sc, c))
        cs = cs2
    e1.sweep(rep, cs, monitors_for, budgets)
    if not rep.extra.get("notes", {}).get("waited-for-planned-machine"):
        raise e1.HarnessError("C17 vacuous: no task ever waited for its "
                              "planned machine while another was free")
    e1.conformance(rep, [x for x in cs if not x[1].get("delay")][::max(
        1, len(cs) // 40)])


def replay(payload):
    vs, _ = e1.replay_payload(payload, monitors_for)
    return vs
