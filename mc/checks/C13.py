"""C13 -- the event log is complete, correctly timed and causally ordered."""
from .. import e1, engine, full, world, run as runmod
from ..monitors import case_info
from . import common, C12

RULE = ("E1/FULL: real Monitor; runs of S-plan/S-contend/S-batch/S-buffer "
        "subsets (observations starting at t>0, duration 1, same-instant "
        "coincidences of different actors' events) x shipped pairings, plus "
        "pause histories start(k);resume(T) for every k on a subset; oracle "
        "per observation: exactly one entry for each of the 8 life-cycle "
        "transitions, each stamped with the instant at which the harness saw "
        "the transition itself, causal order, finished-started == duration; "
        "the same oracle on much wider sets (S-plan/S-contend/S-buffer "
        "thinned 6/3/3 in quick and unthinned in thorough, S-batch, S-park, "
        "S-offgrid, S-ids, and EVERY S-buffer history in which a workflow "
        "ends during a tier move, selected by a LIGHT pre-pass) in 'events' "
        "mode = real Monitor loop and real collate_events without the "
        "per-step dataframes, whose log is compared with the FULL-mode log "
        "on every fourth FULL case; "
        "non-trivial = observation starting at t>0 or two observations")

KINDS = (("telescope", "started"), ("telescope", "finished"),
         ("buffer", "added"), ("buffer", "removed"),
         ("queue", "added"), ("queue", "removed"),
         ("allocation", "started"), ("allocation", "stopped"))


class QueueWatch:
    def start(self, run):
        self.t_add, self.t_rm, self.prev = {}, {}, set()

    def on_event(self, run):
        cur = {o.name for o in run.sim.scheduler.observation_queue}
        if cur != self.prev:
            for n in cur - self.prev:
                self.t_add.setdefault(n, []).append(run.env.now)
            for n in self.prev - cur:
                self.t_rm.setdefault(n, []).append(run.env.now)
            self.prev = cur


def judge(case, r, qw):
    vs = []
    info = case_info(case)
    ev = full.event_rows(r.sim.monitor.events)
    truth = {}
    for c in r.probe.calls:
        if c["kind"] == "begin_obs":
            truth.setdefault((c["obs"], "telescope", "started"),
                             []).append(c["t"])
        elif c["kind"] == "finish_obs":
            truth.setdefault((c["obs"], "telescope", "finished"),
                             []).append(c["t"])
        elif c["kind"] == "hot_remove" and c["ret"]:
            truth.setdefault((c["obs"], "buffer", "removed"),
                             []).append(c["t"])
            truth.setdefault((c["obs"], "allocation", "stopped"),
                             []).append(c["t"])
    for a in r.probe.acts:
        if a["kind"] == "ingest_stream":
            truth.setdefault((a["arg"], "buffer", "added"),
                             []).append(a["t0"])
        elif a["kind"] == "alloc_tasks":
            truth.setdefault((a["observation"], "allocation", "started"),
                             []).append(a["t0"])
    for n, ts in qw.t_add.items():
        truth[(n, "queue", "added")] = list(ts)
    for n, ts in qw.t_rm.items():
        truth[(n, "queue", "removed")] = list(ts)
    got = {}
    for t, actor, obs, resource, event in ev:
        if resource == "transfer":
            continue
        got.setdefault((obs, resource, event), []).append(t)
    for name in info["order"]:
        times = {}
        for res, evn in KINDS:
            k = (name, res, evn)
            g = got.get(k, [])
            w = truth.get(k, [])
            if len(g) != 1:
                if len(w) == 1 or len(g) > 1:
                    vs.append(("C13.exactly-once",
                               "event=%s/%s:%s" % (
                                   res, evn, "missing" if not g
                                   else "duplicated"),
                               {"obs": name, "logged": g, "happened": w}))
                continue
            times[(res, evn)] = g[0]
            if len(w) == 1 and g[0] != w[0]:
                vs.append(("C13.timestamp", "event=%s/%s:stamped-%s" % (
                    res, evn, "early" if g[0] < w[0] else "late"),
                    {"obs": name, "logged": g[0], "happened": w[0]}))
        if len(times) == 8:
            T = times
            chain = [("telescope", "started"), ("queue", "added"),
                     ("allocation", "started"), ("allocation", "stopped"),
                     ("queue", "removed")]
            for a, b in zip(chain, chain[1:]):
                if T[a] > T[b]:
                    vs.append(("C13.causal-order", "%s/%s-after-%s/%s" % (
                        a + b), {"obs": name, "times": {
                            "%s/%s" % k: v for k, v in T.items()}}))
            if T[("buffer", "added")] != T[("telescope", "started")]:
                vs.append(("C13.causal-order", "buffer-added-not-at-start",
                           {"obs": name}))
            if T[("buffer", "removed")] != T[("allocation", "stopped")]:
                vs.append(("C13.causal-order",
                           "buffer-removed-not-at-allocation-stopped",
                           {"obs": name}))
            if T[("telescope", "finished")] - T[("telescope", "started")] \
                    != info["obs"][name]["dur"]:
                vs.append(("C13.duration", "finished-minus-started-wrong",
                           {"obs": name, "dur": info["obs"][name]["dur"],
                            "started": T[("telescope", "started")],
                            "finished": T[("telescope", "finished")]}))
    # entries for unknown observations / kinds
    for (obs, res, evn), ts in got.items():
        if obs not in info["obs"] or (res, evn) not in KINDS:
            vs.append(("C13.exactly-once", "unexpected-entry",
                       {"entry": [obs, res, evn], "times": ts}))
    return vs


def execute(case, mode=False):
    """mode False: FULL (real Monitor); "events": real Monitor loop and real
    collate_events, per-step dataframes left out (13x cheaper)."""
    qw = QueueWatch()
    r = runmod.execute(case, [qw], (), e1.horizon_of(case), light=mode,
                       keep_snaps=False)
    return r, qw


class _TierOverlap:
    """Selects histories in which a workflow completes (hot buffer release)
    while a tier move is in flight."""

    def start(self, run):
        self.n, self.hit = 0, False

    def on_event(self, run):
        calls = run.probe.calls
        while self.n < len(calls):
            c = calls[self.n]
            self.n += 1
            if c["kind"] == "hot_remove" and \
                    run.sim.buffer.hot[0].observations['transfer'] is not None:
                self.hit = True


def events_cases(tier, seed):
    """Wider sets run in "events" mode."""
    lvl = "thorough" if tier == "thorough" else "quick"
    q = tier != "thorough"
    sh = lambda c: common.shipped(c, lvl, "diag", False)
    plan = common.add_algs(list(common.plan_scope(lvl)), sh)
    con = common.add_algs(list(common.contend(lvl)), sh)
    buf = common.add_algs(list(common.buffer_scope(lvl)), sh)
    bat = common.add_algs(list(common.batch_scope(lvl)),
                          lambda c: common.batch_algs(c, lvl)[:4])
    park = common.add_algs(list(common.park_scope(lvl)),
                           lambda c: common.park_algs(c, lvl))
    off = common.add_algs(list(common.offgrid_scope(lvl)), sh)
    ids = common.add_algs(list(common.ids_scope(lvl)), sh)
    # coverage-directed subset: every S-buffer history in which a workflow
    # finishes during a tier move (selected by a LIGHT pre-pass)
    def pre(i, item):
        w = _TierOverlap()
        runmod.execute(item[1], [w], (), e1.horizon_of(item[1]), light=True)
        return w.hit
    hits, _ = engine.parallel_map(pre, buf, chunk=20)
    directed = [("S-buffer/workflow-ends-during-tier-move", c)
                for (sc, c), h in zip(buf, hits) if h]
    # dense off-grid starts with coarse units
    dense = common.add_algs(list(common.offgrid_dense_scope(lvl)),
                            lambda c: [{"kind": "queue"}])
    if q:
        dense = common.thin(dense, 2)
    if q:
        plan, con, buf = (common.thin(plan, 6), common.thin(con, 3),
                          common.thin(buf, 3))
        ids = common.thin(ids, 2)
    zd = common.add_algs(list(common.zero_demand_scope(lvl)), lambda c: [{"kind": "queue"}, {"kind": "batch", "p": 1, "min": 1}],
                         feasible_only=False)
    out = plan + con + buf + bat + park + off + ids + dense + zd
    return common.rotate([(sc + "/events-mode", c) for sc, c in out]
                         + directed, seed), len(directed)


def cases(tier, seed):
    cs = C12.cases(tier, seed)
    lvl = "thorough" if tier == "thorough" else "quick"
    # observations starting at t>0 with duration 1
    extra = []
    from ..scopes import mkobs, mkcfg, mkcase, dag, CLUSTERS
    for s1 in (1, 2):
        for s2 in (s1, s1 + 1, s1 + 3):
            for M in (1, 2):
                obs = [mkobs("a", s1, 1, 1, 1, 1, "wa"),
                       mkobs("b", s2, 2, 1, 1, 1, "wb")]
                cfg = mkcfg(CLUSTERS[M][0], obs, (100, 10), (100, 10), 2, 2)
                c = mkcase(cfg, {"wa": dag("single", [1]),
                                 "wb": dag("chain2", [1, 1], [0])})
                for alg in ({"kind": "queue"},
                            {"kind": "batch", "p": 1, "min": 1}):
                    extra.append(("S-late-start", dict(c, alg=alg)))
    return cs + extra


def run(rep, tier, seed):
    rep.rule = RULE
    rep.assumptions = ["transfer events are not part of the property",
                       "only runs that return are judged (others: C05)"]
    cs = cases(tier, seed)
    # pause histories on a subset: every k
    paused = []
    for sc, case in cs[::max(1, len(cs) // (60 if tier == "thorough"
                                            else 12))]:
        r0, _ = execute(case)
        if r0.outcome != "returned":
            continue
        T = int(r0.end_time) + 2
        for k in range(1, T):
            paused.append((sc + "/paused", dict(case, pauses=[k, T])))
    evs, ndirected = events_cases(tier, seed)
    rep.extra["histories_with_workflow_end_during_tier_move"] = ndirected
    # a long run: pauses and resumes around t = 1000 (housekeeping that is
    # keyed on the clock)
    from ..scopes import mkobs, mkcfg, mkcase, dag, CLUSTERS
    lobs = [mkobs("a", 2, 2, 1, 1, 1, "wa"),
            mkobs("b", 996, 2, 1, 1, 1, "wa"),
            mkobs("c", 1003, 1, 1, 1, 1, "wa")]
    lcfg = mkcfg(CLUSTERS[2][0], lobs, (100, 10), (100, 10), 2, 2)
    long_case = mkcase(lcfg, {"wa": dag("chain2", [2, 1], [0])},
                       {"kind": "queue"})
    long_hist = [None, [400, 1013], [998, 1013], [400, 1001, 1013],
                 [999, 1000, 1001, 1013]]
    if tier == "thorough":
        long_hist += [[k, 1013] for k in range(990, 1010)]
    items = [(sc, c, False) for sc, c in cs + paused] + \
        [(sc, c, "events") for sc, c in evs] + \
        [("S-past-1000" + ("/paused" if h else ""),
          dict(long_case, pauses=h) if h else long_case, "events")
         for h in long_hist]
    nfull = len(cs) + len(paused)

    def work(i, item):
        sc, case, mode = item
        r, qw = execute(case, mode)
        if r.outcome != "returned":
            return ([], r.probe.n_events, False, r.outcome, True)
        nt = len(case["cfg"]["obs"]) > 1 or any(
            o["start"] > 0 for o in case["cfg"]["obs"])
        same = True
        if mode is False and not case.get("pauses") and i % 4 == 0:
            # conformance of the cheaper mode: same event log, all columns
            r2, _ = execute(case, "events")
            same = (full.event_rows_all(r2.sim.monitor.events)
                    == full.event_rows_all(r.sim.monitor.events))
        return (judge(case, r, qw), r.probe.n_events, nt, r.outcome, same)
    res, _ = engine.parallel_map(work, items,
                                 heavy_first=lambda it: it[2] is False)
    for (sc, case, mode), (vs, ne, nt, outcome, same) in zip(items, res):
        if not same:
            from ..seams import HarnessError
            raise HarnessError("events-mode log differs from FULL-mode log: "
                               "%r" % (case,))
        s = rep.scope(sc)
        s["cases"] += 1
        s["executions"] += 1
        rep.evaluations += 1
        rep.transitions += ne
        rep.traces_validated += 1
        rep.outcomes.add(outcome)
        rep.states.add(hash(repr(case)))
        if nt:
            rep.nontrivial.add(hash(repr(case)))
        if len(rep.samples) < 2 and nt:
            rep.add_sample({"case": case, "outcome": outcome})
        for clause, cause, det in vs:
            rep.violation(clause, cause, {"engine": "E1", "case": case,
                                          "light": mode}, det, sc)
    rep.extra["states_note"] = ("states = distinct (configuration, pause "
                                "history) pairs executed in FULL mode")
    rep.confirm = replay


def replay(payload):
    case = payload["case"]
    r, qw = execute(case, payload.get("light", False) or False)
    if r.outcome != "returned":
        return []
    return [{"clause": a, "cause": b, "detail": c}
            for a, b, c in judge(case, r, qw)]
