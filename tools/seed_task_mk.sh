#!/bin/sh
# (kept for reference: generates /tmp/seed/<Cxx-N>/TASK.md for a seeding sub-agent; paths assume /tmp/seed)
# usage: mk.sh Cxx N   -> creates worktree /tmp/seed/Cxx-N and TASK.md
P="$1"; N="$2"; W="/tmp/seed/$P-$N"
git -C /repo worktree add -q --detach "$W" HEAD || exit 1
mkdir -p "/tmp/seed/out/$P-$N"
cp /tmp/seed/example_sim.py "$W/example_sim.py"
python3 - "$P" "$N" "$W" <<'PY'
import json, sys
pid, n, w = sys.argv[1:4]
rec = [json.loads(l) for l in open('/verif/properties.jsonl') if json.loads(l)['id']==pid][0]
txt = f"""# Task: seed a realistic property-breaking change into top-sim/topsim

You are working in your own scratch git worktree of the topsim repository:
`{w}` (a SimPy-based discrete-event simulator of telescope observation ingest,
hot/cold buffer storage and workflow task scheduling on a modelled cluster).
Work ONLY inside that directory and inside `/tmp/seed/out/{pid}-{n}/`. Never touch `/repo` or
`/verif` (do not read anything under /verif either).

## The property

```json
{json.dumps(rec, indent=1)}
```

## What to produce

A change to the topsim sources (files under `topsim/` in your worktree) that **breaks this
property** while the code still imports/compiles and the repository's existing pinned test-suite still
passes exactly as before. The change must look like a plausible refactoring slip or optimisation a
developer could make - not sabotage that ordinary use would expose at once. Prefer a change that
needs something *specific* to manifest: a particular interleaving/ordering inside a timestep, a fault or
delay at a particular point, a multi-step sequence of operations, an unusual input (sizes, rates,
durations, DAG shape), or two cooperating sites that each look fine alone. Do NOT change tests, and do not
add new files to `topsim/` other than what the change needs.

Also produce a **demonstration**: a small stand-alone Python program `demo.py` that exits 0 (prints PASS)
on the unchanged code and exits non-zero (prints what went wrong) with your change applied. It must be
runnable as `PYTHONPATH=<repo dir> TQDM_DISABLE=1 /venv/bin/python demo.py` with `<repo dir>` pointing either to the
unchanged repository or to the changed one, and must check the *property as stated*, not an implementation detail.

## Practicalities

* Interpreter: `/venv/bin/python` (3.12, has simpy, pandas, networkx, numpy). No network.
* The pinned suite: `cd {w} && /venv/bin/python -m pytest -ra -q -p no:cacheprovider --timeout=900 --continue-on-collection-errors`.
  On the unchanged code exactly 30 tests pass, 3 fail and 8 modules fail to import (SHADOW is not installed here);
  after your change the same 30 must still pass.
* `example_sim.py` in your worktree shows how to build a config + workflow file and run a whole simulation
  without SHADOW (BatchPlanning + QueueProcessing / BatchProcessing), and how to read the outputs. You can also
  drive components (Cluster, Buffer, Task, DelayModel, Config, Planner) directly.
* Verify everything yourself: run the pinned suite with your change; run demo.py against the unchanged code
  (`git stash` or a second checkout) and against the changed code.

## Deliverables (write them to `/tmp/seed/out/{pid}-{n}/`)

1. `patch.diff`  - output of `git diff` in your worktree (only the source change; not demo.py, not example_sim.py).
2. `demo.py`     - the demonstration program.
3. `notes.md`    - which clause of the property breaks, what exactly is needed for it to manifest
   (configuration, ordering, sequence), what you ran and what you observed (pinned suite result, demo on both trees).

Finish by replying with a 5-10 line summary of the change and of what it needs to manifest.
"""
open(f"{w}/TASK.md","w").write(txt)
PY
echo "$W"
