"""C19 -- idle / empty / finished queries tell the truth."""
from .. import e1, e2, monitors, world
from . import common

RULE = ("E1: after EVERY event of every run of S-contend/S-buffer/S-plan/"
        "S-batch x shipped pairings the five queries are evaluated and "
        "compared with independently probed state (running list, live "
        "activations, pools, buffers' free space, queue, observation "
        "statuses, arrays in use): query true => truth, and "
        "is_finished == conjunction of the four.  E2: Cluster.is_idle in "
        "every state reachable by cluster operation histories (C02's BFS).  "
        "non-trivial = run in which each query was seen both true and false")


def monitors_for(case):
    return [monitors.TruthfulQueries()]


def cases(tier, seed):
    lvl = "thorough" if tier == "thorough" else "quick"
    con = list(common.contend(lvl))
    buf = list(common.buffer_scope(lvl))
    plan = list(common.plan_scope(lvl))
    bat = list(common.batch_scope(lvl))
    if tier != "thorough":
        con, buf, plan, bat = common.thin(con, 4), common.thin(buf, 3), common.thin(plan, 3), common.thin(bat, 3)
    out = common.add_algs(con + buf + plan,
                          lambda c: common.shipped(c, lvl, "diag"))
    out += common.add_algs(bat, lambda c: common.batch_algs(c, lvl))
    return common.rotate(out, seed)


def run(rep, tier, seed):
    rep.rule = RULE
    rep.assumptions = ["one-directional for the four actor queries (the "
                       "statement says 'only when'); is_finished is "
                       "compared both ways with the conjunction"]
    e2_states = 0
    e2_tr = 0
    for M, depth in ([(2, 5), (3, 4)] if tier != "thorough"
                     else [(2, 8), (3, 6)]):
        stats, viols = e2.bfs_parallel(M, depth, prop="C19.")
        sc = rep.scope("E2-cluster-M%d-depth%d" % (M, depth))
        sc["cases"] = stats["states"]
        sc["executions"] = stats["transitions"]
        sc["idle_true"] = stats["idle_true"]
        sc["idle_false"] = stats["idle_false"]
        rep.evaluations += stats["transitions"]
        rep.transitions += stats["transitions"]
        e2_states += stats["states"]
        e2_tr += stats["transitions"]
        for (clause, cause, detail), hist in viols:
            if clause.startswith("C19."):
                rep.violation(clause, cause,
                              {"engine": "E2", "M": M,
                               "history": [list(h) for h in hist]},
                              detail, "E2-cluster-M%d" % M)
    cs = cases(tier, seed)
    e1.sweep(rep, cs, monitors_for, {})
    rep.states = len(rep.states) + e2_states
    e1.conformance(rep, cs[::max(1, len(cs) // 40)])
    conf = rep.confirm

    def confirm(payload):
        if payload.get("engine") == "E2":
            return replay(payload)
        return conf(payload)
    rep.confirm = confirm


def replay(payload):
    if payload.get("engine") == "E2":
        vs = e2.replay_history(payload["M"],
                               [tuple(h) for h in payload["history"]])
        return [{"clause": a, "cause": b, "detail": c} for a, b, c in vs
                if a.startswith("C19.")]
    vs, _ = e1.replay_payload(payload, monitors_for)
    return vs
