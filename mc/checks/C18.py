"""C18 -- moving an observation between buffer tiers conserves data."""
import itertools
import math

from .. import engine, world, seams
from ..seams import ProbeEnvironment, Probe
from ..scopes import mkobs, mkcfg, mkcase, dag
from . import common

from topsim.core.config import Config
from topsim.core.cluster import Cluster
from topsim.core.buffer import Buffer
from topsim.core.instrument import Observation

seams.install()

RULE = ("E2 on a real Buffer (real move_hot_to_cold / move_cold_to_hot "
        "processes on a probe environment): ALL sizes x hot rates x cold "
        "rates (either may be slower) x destination capacities {size-1, "
        "size, size+3} x histories of up to 3 moves (h->c, c->h, round "
        "trips); reference r=min(rates), moved after j steps = min(size, "
        "j*r); oracle each step: what leaves one tier enters the other and "
        "equals the reference, the move ends after ceil(size/r) transfer "
        "steps, afterwards the observation is stored in exactly one tier, in "
        "no transfer slot, both free spaces adjusted by exactly size; a move "
        "without room in the destination returns False and changes nothing; "
        "plus two hot->cold moves overlapping in time (second started 0-3 "
        "steps after the first): total conserved each step, both complete "
        "on time, each observation stored once in cold; "
        "non-trivial = a move that transferred data")


def build(c):
    cfg = mkcfg([[1, 1]], [mkobs("a", 0, 1, 1, 1, 1, "wa")],
                (c["hotcap"], c["hotrate"]), (c["coldcap"], c["coldrate"]))
    path = world.materialise(mkcase(cfg, {"wa": dag("single", [1])}))
    probe = Probe()
    env = ProbeEnvironment(probe)
    config = Config(path)
    cluster = Cluster(env, config)
    buf = Buffer(env, cluster, None, config)
    return env, probe, buf


def state(buf):
    h, c = buf.hot[0], buf.cold[0]
    nm = lambda o: None if o is None else o.name
    return (h.current_capacity, c.current_capacity,
            tuple(o.name for o in h.observations['stored']),
            nm(h.observations['transfer']),
            tuple(o.name for o in c.observations['stored']),
            nm(c.observations['transfer']))


def run_history(c):
    """-> (violations, n_steps, moved_any)"""
    env, probe, buf = build(c)
    h, cold = buf.hot[0], buf.cold[0]
    size = c["size"]
    obs = Observation("a", 0, 1, 1, "none", size)
    obs.total_data_size = size
    if c["moves"][0] == "h2c":
        h.observations['stored'].append(obs)
        h.current_capacity -= size
    else:
        cold.observations['stored'].append(obs)
        cold.current_capacity -= size
    r = min(c["hotrate"], c["coldrate"])
    vs = []
    steps_total = 0
    moved_any = False
    where = "hot" if c["moves"][0] == "h2c" else "cold"
    for mv in c["moves"]:
        src, dst = (h, cold) if mv == "h2c" else (cold, h)
        if (mv == "h2c") != (where == "hot"):
            break                      # history not applicable from here
        before = state(buf)
        s0, d0 = src.current_capacity, dst.current_capacity
        room = dst.current_capacity >= size
        gen = buf.move_hot_to_cold(0) if mv == "h2c" \
            else buf.move_cold_to_hot(0)
        proc = env.process(gen)
        j = 0
        limit = size + 5
        err = None
        while not proc.triggered and j <= limit:
            target = env.now
            # drain the current instant
            try:
                while env._queue and env._queue[0][0] <= target:
                    env.step()
            except Exception as e:
                err = e
                break
            if proc.triggered:
                break
            j += 1
            moved = min(size, j * r)
            ds, dd = src.current_capacity - s0, d0 - dst.current_capacity
            if ds != dd:
                vs.append(("C18.conserved-each-step",
                           "%s:source-and-destination-disagree" % mv,
                           {"step": j, "left_source": ds,
                            "entered_destination": dd}))
                break
            if dd != moved:
                vs.append(("C18.slower-rate", "%s:moved-%s-than-min-rate:%s"
                           % (mv, "more" if dd > moved else "less",
                              "hot-slower" if c["hotrate"] < c["coldrate"]
                              else "cold-slower" if c["coldrate"] <
                              c["hotrate"] else "equal-rates"),
                           {"step": j, "moved": dd, "expected": moved,
                            "rates": [c["hotrate"], c["coldrate"]]}))
                break
            env._now = env.now            # advance one instant
            nxt = env.now + 1
            try:
                while env._queue and env._queue[0][0] <= nxt \
                        and not proc.triggered:
                    if env._queue[0][0] > env.now and env._queue[0][0] \
                            >= nxt:
                        break
                    env.step()
            except Exception as e:
                err = e
                break
            if env.now < nxt:
                env._now = nxt
        steps_total += j
        if err is not None or (proc.triggered and not proc.ok):
            e = err if err is not None else proc.value
            vs.append(("C18.completes", "%s:raised-%s:%s" % (
                mv, type(e).__name__,
                "hot-slower" if c["hotrate"] < c["coldrate"] else
                "cold-slower" if c["coldrate"] < c["hotrate"]
                else "equal-rates"), {"error": repr(e)}))
            break
        if vs:
            break
        if not proc.triggered:
            vs.append(("C18.completes", "%s:never-completes" % mv,
                       {"steps": j}))
            break
        ret = proc.value
        after = state(buf)
        if not room:
            if ret is not False:
                vs.append(("C18.refused-without-room",
                           "%s:move-without-room-accepted" % mv,
                           {"ret": ret}))
            if after != before:
                vs.append(("C18.refused-without-room",
                           "%s:refused-move-changed-state" % mv,
                           {"before": before, "after": after}))
            continue
        if ret is not True:
            vs.append(("C18.completes", "%s:move-with-room-refused" % mv,
                       {"ret": ret}))
            break
        moved_any = True
        want_steps = math.ceil(size / r)
        if j != want_steps:
            vs.append(("C18.duration", "%s:took-%s-steps" % (
                mv, "more" if j > want_steps else "fewer"),
                {"steps": j, "expected": want_steps}))
        hs, ht, cs, ct = after[2], after[3], after[4], after[5]
        n_in = ("a" in hs) + ("a" in cs)
        dst_ok = ("a" in cs) if mv == "h2c" else ("a" in hs)
        if n_in != 1 or not dst_ok or hs.count("a") + cs.count("a") != 1:
            vs.append(("C18.stored-in-one-tier", "%s:stored-in-%s" % (
                mv, "neither" if n_in == 0 else "both" if n_in == 2
                else "source"), {"hot": hs, "cold": cs}))
        if ht is not None or ct is not None:
            vs.append(("C18.stored-in-one-tier",
                       "%s:left-in-transfer-slot" % mv,
                       {"hot_transfer": ht, "cold_transfer": ct}))
        if src.current_capacity - s0 != size or \
                d0 - dst.current_capacity != size:
            vs.append(("C18.free-space-adjusted", "%s:not-by-size" % mv,
                       {"source_gain": src.current_capacity - s0,
                        "dest_loss": d0 - dst.current_capacity,
                        "size": size}))
        where = "cold" if mv == "h2c" else "hot"
        if vs:
            break
    return vs, steps_total, moved_any


def run_overlap(c):
    """two observations stored in hot; a second hot->cold move is started
    `gap` steps after the first (Buffer.run does that while the hot tier
    stays over its threshold).  -> (violations, steps, moved_any)"""
    env, probe, buf = build(c)
    h, cold = buf.hot[0], buf.cold[0]
    s1, s2 = c["sizes"]
    o1 = Observation("a", 0, 1, 1, "none", s1)
    o1.total_data_size = s1
    # twin: a second observation with the SAME description (same pipeline
    # on another sub-array): a different object that may compare equal
    n2 = "a" if c.get("twin") else "b"
    o2 = Observation(n2, 0, 1, 1, "none", s2)
    o2.total_data_size = s2
    # observation_for_transfer pops the LAST stored one
    h.observations['stored'].extend([o2, o1])
    h.current_capacity -= (s1 + s2)
    r = min(c["hotrate"], c["coldrate"])
    total0 = h.current_capacity + cold.current_capacity
    vs = []
    procs = [env.process(buf.move_hot_to_cold(0))]
    started2 = False
    steps = 0
    limit = s1 + s2 + c["gap"] + 6
    err = None
    while steps <= limit:
        if not started2 and steps >= c["gap"]:
            procs.append(env.process(buf.move_hot_to_cold(0)))
            started2 = True
        try:
            while env._queue and env._queue[0][0] <= env.now:
                env.step()
        except Exception as e:
            err = e
            break
        if h.current_capacity + cold.current_capacity != total0:
            vs.append(("C18.conserved-each-step",
                       "overlapping-h2c:total-not-conserved",
                       {"step": steps, "hot_free": h.current_capacity,
                        "cold_free": cold.current_capacity,
                        "expected_sum": total0}))
            break
        if started2 and all(p.triggered for p in procs):
            break
        steps += 1
        env._now = env.now + 1
    if err is not None or any(p.triggered and not p.ok for p in procs):
        e = err if err is not None else [p.value for p in procs
                                         if p.triggered and not p.ok][0]
        vs.append(("C18.completes", "overlapping-h2c:raised-%s"
                   % type(e).__name__, {"error": repr(e)}))
        return vs, steps, False
    if vs:
        return vs, steps, True
    if not all(p.triggered for p in procs):
        vs.append(("C18.completes", "overlapping-h2c:never-completes",
                   {"steps": steps}))
        return vs, steps, True
    refused2 = procs[1].value is False
    if refused2:
        # The second move was refused (the cold tier counts the whole of an
        # in-flight observation as taken, so it may refuse although there
        # is room; Buffer.run simply retries later).  C18 only demands that
        # a refused move leaves everything as it was: the first move must
        # be unaffected and the second observation must still be stored in
        # the hot tier.
        st = state(buf)
        hs, ht, cs, ct = st[2], st[3], st[4], st[5]
        if steps != math.ceil(s1 / r) and c["gap"] < math.ceil(s1 / r):
            vs.append(("C18.duration", "overlapping-h2c:refused-second-move-"
                       "changed-first-move-duration",
                       {"steps": steps, "expected": math.ceil(s1 / r)}))
        if list(hs) != [n2] or list(cs) != ["a"] or ht is not None \
                or ct is not None or \
                h.current_capacity != c["hotcap"] - s2 or \
                cold.current_capacity != c["coldcap"] - s1:
            vs.append(("C18.refused-without-room",
                       "overlapping-h2c:refused-move-changed-state",
                       {"hot": hs, "cold": cs, "hot_transfer": ht,
                        "cold_transfer": ct,
                        "hot_free": h.current_capacity,
                        "cold_free": cold.current_capacity}))
        return vs, steps, True
    want_last = max(math.ceil(s1 / r), c["gap"] + math.ceil(s2 / r))
    if steps != want_last:
        vs.append(("C18.duration", "overlapping-h2c:took-%s-steps" % (
            "more" if steps > want_last else "fewer"),
            {"steps": steps, "expected": want_last}))
    st = state(buf)
    hs, ht, cs, ct = st[2], st[3], st[4], st[5]
    for nm, ob in (("a", o1), (n2, o2)):
        # by identity, not by name or equality
        in_h = sum(1 for x in h.observations['stored'] if x is ob)
        in_c = sum(1 for x in cold.observations['stored'] if x is ob)
        n_in = in_h + in_c
        if n_in != 1 or in_c != 1:
            vs.append(("C18.stored-in-one-tier", "overlapping-h2c:stored-in-%s"
                       % ("neither" if n_in == 0 else "both-or-twice"
                          if n_in > 1 else "source"),
                       {"obs": nm, "hot": hs, "cold": cs}))
            break
    if ht is not None or ct is not None:
        vs.append(("C18.stored-in-one-tier",
                   "overlapping-h2c:left-in-transfer-slot",
                   {"hot_transfer": ht, "cold_transfer": ct}))
    if h.current_capacity != c["hotcap"] or \
            cold.current_capacity != c["coldcap"] - s1 - s2:
        vs.append(("C18.free-space-adjusted", "overlapping-h2c:not-by-size",
                   {"hot_free": h.current_capacity,
                    "cold_free": cold.current_capacity}))
    return vs, steps, True


def run_under_ingest(c):
    """a move (either direction) while an already-admitted ingest keeps
    streaming `w` units per step into the hot tier through the real
    HotBuffer.process_incoming_data_stream (k steps, from step `gap`).  The
    stream may over-commit the hot tier mid-move (admission ignores in-flight
    returns: C07's finding); whatever the hot tier's level, each step of the
    move must add to one tier exactly what it takes from the other:
    hot_free + cold_free + streamed == constant after every step, and both
    tiers end adjusted by exactly the size.  -> (violations, steps, moved)"""
    env, probe, buf = build(c)
    h, cold = buf.hot[0], buf.cold[0]
    size, mv = c["size"], c["moves"][0]
    obs = Observation("a", 0, 1, 1, "none", size)
    obs.total_data_size = size
    src, dst = (h, cold) if mv == "h2c" else (cold, h)
    src.observations['stored'].append(obs)
    src.current_capacity -= size
    streamed = [0]

    def writer():
        if c["gap"]:
            yield env.timeout(c["gap"])
        for _ in range(c["k"]):
            h.process_incoming_data_stream(c["w"], env.now)
            streamed[0] += c["w"]
            yield env.timeout(1)
    total0 = h.current_capacity + cold.current_capacity
    h0, c0 = h.current_capacity, cold.current_capacity
    if c.get("writer_first"):
        wp = env.process(writer())
    proc = env.process(buf.move_hot_to_cold(0) if mv == "h2c"
                       else buf.move_cold_to_hot(0))
    if not c.get("writer_first"):
        wp = env.process(writer())
    vs, steps = [], 0
    limit = size + c["gap"] + c["k"] + 6
    try:
        while steps <= limit:
            while env._queue and env._queue[0][0] <= env.now:
                env.step()
            tot = h.current_capacity + cold.current_capacity + streamed[0]
            if tot != total0:
                vs.append(("C18.conserved-each-step",
                           "%s-under-ingest:total-not-conserved" % mv,
                           {"step": steps, "hot_free": h.current_capacity,
                            "cold_free": cold.current_capacity,
                            "streamed": streamed[0],
                            "expected_sum": total0}))
                break
            if proc.triggered and wp.triggered:
                break
            steps += 1
            env._now = env.now + 1
    except Exception as e:
        vs.append(("C18.completes", "%s-under-ingest:raised-%s"
                   % (mv, type(e).__name__), {"error": repr(e)}))
        return vs, steps, False
    if vs:
        return vs, steps, True
    if not proc.triggered:
        vs.append(("C18.completes", "%s-under-ingest:never-completes" % mv,
                   {"steps": steps}))
        return vs, steps, True
    if proc.value is False:
        # refused: nothing but the stream may have changed
        if (h.current_capacity, cold.current_capacity) != \
                (h0 - streamed[0], c0) or obs not in \
                src.observations['stored']:
            vs.append(("C18.refused-without-room",
                       "%s-under-ingest:refused-move-changed-state" % mv,
                       {"hot_free": h.current_capacity,
                        "cold_free": cold.current_capacity}))
        return vs, steps, False
    sgn = 1 if mv == "h2c" else -1
    if h.current_capacity != h0 + sgn * size - streamed[0] or \
            cold.current_capacity != c0 - sgn * size:
        vs.append(("C18.free-space-adjusted", "%s-under-ingest:not-by-size"
                   % mv, {"hot_free": h.current_capacity,
                          "cold_free": cold.current_capacity,
                          "streamed": streamed[0]}))
    return vs, steps, True


def under_ingest_domain(tier):
    sizes = (3, 6, 10) if tier != "thorough" else range(2, 13)
    rates = [(1, 1), (2, 3), (3, 2)] if tier != "thorough" else \
        [(a, b) for a in range(1, 5) for b in range(1, 5)]
    for size, (hr, cr), mv in itertools.product(sizes, rates,
                                                 ("c2h", "h2c")):
        for room in (0, 2, size):         # hot room beyond the observation
            for w, k, gap in itertools.product((1, 3), (2, 5), (0, 1, 3)):
                for wf in (False, True):
                    yield {"engine": "E2", "under_ingest": True,
                           "size": size, "hotrate": max(hr, w),
                           "coldrate": cr,
                           # hot->cold: the stream was admitted into real
                           # room; cold->hot: the return may be over-
                           # committed by the stream (reachable: C07 finding)
                           "hotcap": size + room + (w * k if mv == "h2c"
                                                    or room == size else 0),
                           "coldcap": size + 4, "w": w, "k": k, "gap": gap,
                           "writer_first": wf, "moves": [mv]}


def overlap_domain(tier):
    sizes = [(3, 5), (6, 10), (4, 4), (2, 7), (5, 1)]
    rates = [(1, 1), (2, 2), (2, 3), (3, 2), (4, 1)]
    if tier == "thorough":
        sizes = [(a, b) for a in range(1, 13) for b in range(1, 13)]
        rates = [(a, b) for a in range(1, 6) for b in range(1, 6)]
    for (s1, s2), (hr, cr), gap in itertools.product(sizes, rates,
                                                      (0, 1, 2, 3)):
        yield {"engine": "E2", "overlap": True, "sizes": [s1, s2],
               "hotrate": hr, "coldrate": cr, "gap": gap,
               "hotcap": s1 + s2 + 5, "coldcap": s1 + s2 + 5,
               "moves": ["h2c", "h2c"]}
    # two observations with one description, moved one after the other or
    # overlapping
    for sz in ((2, 3, 4) if tier != "thorough" else range(1, 9)):
        for (hr, cr), gap in itertools.product(rates[:3], (0, 1, 2, 3, 6)):
            yield {"engine": "E2", "overlap": True, "twin": True,
                   "sizes": [sz, sz], "hotrate": hr, "coldrate": cr,
                   "gap": gap, "hotcap": 2 * sz + 5, "coldcap": 2 * sz + 5,
                   "moves": ["h2c", "h2c"]}


def domain(tier):
    sizes = range(1, 25) if tier == "thorough" else range(1, 9)
    rates = range(1, 9) if tier == "thorough" else range(1, 5)
    hists = [["h2c"], ["c2h"], ["h2c", "c2h"], ["c2h", "h2c"],
             ["h2c", "c2h", "h2c"], ["c2h", "h2c", "c2h"]]
    if tier == "thorough":
        hists += [["h2c", "c2h", "h2c", "c2h"], ["c2h", "h2c", "c2h", "h2c"],
                  ["h2c", "c2h", "h2c", "c2h", "h2c"]]
    for size, hr, cr in itertools.product(sizes, rates, rates):
        for hist in hists:
            for dcap in (size - 1, size, size + 3):
                # destination of the first move gets dcap; the other tier
                # is roomy enough to hold the observation initially
                if hist[0] == "h2c":
                    hotcap, coldcap = size + 4, dcap
                else:
                    hotcap, coldcap = dcap, size + 4
                if min(hotcap, coldcap) < 1:
                    continue
                yield {"engine": "E2", "size": size, "hotrate": hr,
                       "coldrate": cr, "hotcap": hotcap, "coldcap": coldcap,
                       "moves": hist}


def huge_domain(tier):
    """petabyte-scale tiers (capacities beyond 2^53): free space must stay
    exact, byte for byte"""
    R = 3000000003
    for steps in ((7, 21) if tier != "thorough" else (3, 7, 21, 40)):
        for r2 in (R, R + 5, R - 4):
            size = steps * min(R, r2) + 1
            for hist in (["h2c"], ["c2h"], ["h2c", "c2h"]):
                yield {"engine": "E2", "size": size, "hotrate": R,
                       "coldrate": r2, "hotcap": 2 ** 53 + size + 5,
                       "coldcap": 2 ** 54 + 7, "moves": hist}


def run(rep, tier, seed):
    rep.rule = RULE
    rep.assumptions = ["moves driven directly on the Buffer (the policy that "
                       "decides when to move is exercised by C05/C07)"]
    items = common.rotate(list(domain(tier)) + list(overlap_domain(tier))
                          + list(huge_domain(tier))
                          + list(under_ingest_domain(tier)),
                          seed)

    def work(i, c):
        if c.get("overlap"):
            return run_overlap(c)
        if c.get("under_ingest"):
            return run_under_ingest(c)
        return run_history(c)
    res, _ = engine.parallel_map(work, items, chunk=100)
    both = set()
    for c, (vs, steps, moved) in zip(items, res):
        s = rep.scope("E2-buffer-%s%s" % ("-".join(c["moves"]),
                                          "-overlapping" if c.get("overlap")
                                          else "-under-ingest"
                                          if c.get("under_ingest") else ""))
        s["cases"] += 1
        s["executions"] += 1
        rep.evaluations += 1
        rep.transitions += steps + len(c["moves"])
        if moved:
            rep.nontrivial.add(len(rep.nontrivial))
            both.add("hot<cold" if c["hotrate"] < c["coldrate"] else
                     "cold<hot" if c["coldrate"] < c["hotrate"] else "eq")
        for clause, cause, det in vs:
            rep.violation(clause, cause, c, det, s and "E2-buffer")
    if len(both) < 3:
        raise seams.HarnessError("C18 vacuous: rate orders seen %s" % both)
    rep.states = len(items)
    rep.outcomes = {(len(r[0]), r[2]) for r in res}
    rep.extra["rate_orders_seen"] = sorted(both)
    rep.add_sample(items[len(items) // 3])
    rep.add_sample(items[-1])
    rep.confirm = replay


def replay(payload):
    if payload.get("overlap"):
        vs, _, _ = run_overlap(payload)
    elif payload.get("under_ingest"):
        vs, _, _ = run_under_ingest(payload)
    else:
        vs, _, _ = run_history(payload)
    return [{"clause": a, "cause": b, "detail": c} for a, b, c in vs]
