"""Child process for C10: run one case (JSON on stdin) in FULL mode under
this interpreter's own PYTHONHASHSEED and print the normalised outputs."""
import json
import os
import sys

sys.path.insert(0, os.path.dirname(os.path.dirname(os.path.abspath(__file__))))
import warnings
warnings.filterwarnings("ignore")
import mc                                          # noqa
from mc import run as runmod, full, e1             # noqa


def main():
    case = json.load(sys.stdin)
    outs = []
    for rep in range(int(os.environ.get("C10_REPEAT", "1"))):
        r = runmod.execute(case, (), (), e1.horizon_of(case), light=False,
                           keep_snaps=False)
        if r.outcome != "returned":
            outs.append({"outcome": r.outcome, "exc": r.exc})
        else:
            o = full.outputs(r)
            o["outcome"] = "returned"
            outs.append(o)
    real = sys.__stdout__
    real.write(json.dumps({"seed": os.environ.get("PYTHONHASHSEED"),
                           "outs": outs}, default=repr))
    real.flush()


main()
