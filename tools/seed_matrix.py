"""Regression of the checks against every kept seeded change:
for each /verif/seeded/<id>/ apply patch to a scratch worktree of /repo HEAD and run the quick checks
listed in meta.json 'caught_by_quick_checks'; report which of them print VIOLATION."""
import json, os, subprocess, sys, tempfile, shutil
ROOT = "/verif/seeded"
only = sys.argv[1:]
rows = []
for name in sorted(os.listdir(ROOT)):
    if only and name not in only:
        continue
    d = os.path.join(ROOT, name)
    meta = json.load(open(os.path.join(d, "meta.json")))
    if meta.get("ineffective_since"):
        rows.append((name, "-", "skipped: no longer observable since %s" % meta["ineffective_since"]["repo_commit"]))
        continue
    if not meta["caught_by_quick_checks"]:
        rows.append((name, "-", "recorded as NOT CAUGHT"))
        continue
    w = tempfile.mkdtemp(prefix="sm.", dir="/tmp")
    os.rmdir(w)
    subprocess.check_call(["git", "-C", "/repo", "worktree", "add", "-q", "--detach", w, "HEAD"])
    try:
        ap = subprocess.run(["git", "-C", w, "apply", os.path.join(d, "patch.diff")], capture_output=True, text=True)
        if ap.returncode != 0:
            rows.append((name, "PATCH-DOES-NOT-APPLY", ap.stderr.strip()[:80]))
            continue
        for chk in meta["caught_by_quick_checks"]:
            s = tempfile.mkdtemp(prefix="se.", dir="/tmp")
            env = dict(os.environ, TOPSIM_REPO=w, VERIF_EVIDENCE_DIR=s + "/evidence", VERIF_REPLAY_DIR=s + "/replays")
            pr = subprocess.run(["/venv/bin/python", "check.py", chk, "--tier", "quick"], cwd="/verif", env=env, capture_output=True, text=True)
            viol = [l for l in pr.stdout.splitlines() if l.startswith("VIOLATION")]
            rows.append((name, chk, "caught rc=%d (%d signatures)" % (pr.returncode, len(viol)) if viol else "MISSED rc=%d" % pr.returncode))
            shutil.rmtree(s, ignore_errors=True)
    finally:
        subprocess.call(["git", "-C", "/repo", "worktree", "remove", "--force", w])
        shutil.rmtree(w, ignore_errors=True)
for r in rows:
    print("%-8s %-6s %s" % r)
bad = [r for r in rows if "MISSED" in r[2] or "PATCH" in r[1]]
sys.exit(1 if bad else 0)
