"""Development aid: run a broad scope with ALL trajectory monitors and print a
histogram of violation signatures (not a registered check)."""
import json
import os
import sys
import time

sys.path.insert(0, os.path.dirname(os.path.dirname(os.path.abspath(__file__))))
import mc                                     # noqa
from mc import engine, monitors, scopes, world, run as runmod  # noqa
from mc.scopes import mkobs, mkcfg, mkcase, dag


def gen():
    for M in (1, 2, 3):
        for machines in scopes.CLUSTERS[M]:
            for hot, cold in (((100, 10), (100, 10)), ((7, 3), (6, 2)),
                              ((10, 2), (10, 3))):
                for s2 in (0, 1, 2, 4, 6):
                    for d1, d2 in ((1, 1), (2, 1), (3, 2), (1, 3)):
                        for ing, mi in ((1, 1), (1, 2), (2, 2)):
                            if ing > M:
                                continue
                            for la, wa in scopes.small_dags(2)[:7]:
                                obs = [mkobs("a", 0, d1, 1, 1, ing, "wa"),
                                       mkobs("b", s2, d2, 2, 1, ing, "wb")]
                                cfg = mkcfg(machines, obs, hot, cold, 2, mi)
                                wfs = {"wa": wa,
                                       "wb": dag("chain2", [2, 1], [2])}
                                yield "survey", mkcase(cfg, wfs)


def main():
    lim = int(sys.argv[1]) if len(sys.argv) > 1 else 4000
    cases = []
    for sc, c in gen():
        algs = scopes.shipped_pairings(c, static="diag")
        for a in algs:
            cc = dict(c)
            cc["alg"] = a
            if world.feasible(cc):
                cases.append(cc)
    step = max(1, len(cases) // lim)
    cases = cases[::step]
    print("cases", len(cases))

    def work(i, case):
        mons = [cls() for cls in monitors.ALL.values()
                if cls.pid != "C09" or case["alg"]["kind"] == "batch"]
        if case["alg"]["kind"] not in ("dynamic",):
            mons = [m for m in mons if m.pid != "C17"]
        r = runmod.execute(case, mons,
                           horizon=world.serial_bound(case) + 1,
                           keep_snaps=True)
        return (r.outcome, r.exc,
                [(v["clause"], v["cause"], v["detail"]) for v in r.violations],
                r.probe.n_events)

    t0 = time.time()
    res, _ = engine.parallel_map(work, cases)
    dt = time.time() - t0
    hist = {}
    outc = {}
    for case, (o, exc, vs, ne) in zip(cases, res):
        outc[o] = outc.get(o, 0) + 1
        for cl, ca, de in vs:
            k = (cl, ca)
            if k not in hist:
                hist[k] = [0, case, de, {}]
            hist[k][0] += 1
            ak = case["alg"]["kind"]
            hist[k][3][ak] = hist[k][3].get(ak, 0) + 1
    print("outcomes", outc, "%.1fs" % dt)
    for k in sorted(hist, key=lambda k: k):
        n, case, de, by = hist[k]
        print("%6d  %-34s %-60s %s" % (n, k[0], k[1], by))
        if "-v" in sys.argv:
            print("        e.g.", json.dumps(case)[:600])
            print("        detail", json.dumps(de, default=repr)[:400])


main()
