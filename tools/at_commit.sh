#!/bin/sh
# usage: at_commit.sh <repo-commit> <check id> [tier]
# Run a check against a scratch worktree of /repo at <commit> (evidence and
# replays go to a scratch dir); the worktree is removed afterwards.
C="$1"; P="$2"; T="${3:-quick}"
W="$(mktemp -d /tmp/wt.XXXXXX)"
git -C /repo worktree add -q --detach "$W" "$C" || exit 2
S="$(mktemp -d /tmp/ev.XXXXXX)"
cd /verif && TOPSIM_REPO="$W" VERIF_EVIDENCE_DIR="$S/evidence" VERIF_REPLAY_DIR="$S/replays" \
   /venv/bin/python check.py "$P" --tier "$T"
RC=$?
git -C /repo worktree remove --force "$W"
rm -rf "$S" "$W"
exit $RC
