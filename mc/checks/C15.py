"""C15 -- the delay model only lengthens, deterministically, and is reported."""
import itertools

from .. import e1, engine, monitors, world
from ..scopes import mkobs, mkcfg, mkcase, dag, CLUSTERS
from . import common

import copy
import types

import topsim.core.delay as _delaymod
from topsim.core.delay import DelayModel

_SRC = None


def fresh_module():
    """A private, freshly executed copy of topsim/core/delay.py: module-level
    and class-level state starts empty, nothing else in the process sees it.
    This is how a call history is started "from the initial state"."""
    global _SRC
    if _SRC is None:
        with open(_delaymod.__file__) as f:
            _SRC = compile(f.read(), _delaymod.__file__, "exec")
    m = types.ModuleType("topsim.core.delay")
    m.__file__ = _delaymod.__file__
    exec(_SRC, m.__dict__)
    return m


def _call(mod, c, models=None):
    deg = getattr(mod.DelayModel.DelayDegree, c["degree"])
    key = (c["prob"], c["dist"], c["degree"], c["seed"])
    dm = None if models is None else models.get(key)
    if dm is None:
        dm = mod.DelayModel(c["prob"], c["dist"], deg, c["seed"])
        if models is not None:
            models[key] = dm
    else:
        dm = copy.copy(dm)           # what WorkflowPlan does per task
    return dm.generate_delay(c["runtime"])


def neighbours(c, tier):
    """Earlier calls differing from ``c`` in exactly one argument."""
    out = []
    for d in DEGREES:
        if d != c["degree"]:
            out.append(("degree", dict(c, degree=d)))
    for p in PROBS:
        if p != c["prob"]:
            out.append(("probability", dict(c, prob=p)))
    for d in DISTS:
        if d != c["dist"]:
            out.append(("distribution", dict(c, dist=d)))
    for s in (c["seed"] + 1, c["seed"] - 1):
        if s >= 0:
            out.append(("seed", dict(c, seed=s)))
    for r in (c["runtime"] + 1, c["runtime"] - 1, 2 * c["runtime"] + 3):
        if r >= 0:
            out.append(("runtime", dict(c, runtime=r)))
    return out


def histories(c, tier):
    hs = [(k, [p]) for k, p in neighbours(c, tier)]
    if tier == "thorough":
        ds = [d for d in DEGREES if d != c["degree"]]
        for d1, d2 in itertools.permutations(ds, 2):
            hs.append(("degree", [dict(c, degree=d1), dict(c, degree=d2)]))
    return hs


def judge_reseed(c):
    """a model constructed with another seed and then given this seed through
    its public attribute must answer like a model constructed with it"""
    out = []
    try:
        ref = _call(fresh_module(), c)
        for s0 in (c["seed"] + 1, c["seed"] + 7, 20):
            if s0 == c["seed"]:
                continue
            mod = fresh_module()
            deg = getattr(mod.DelayModel.DelayDegree, c["degree"])
            dm = mod.DelayModel(c["prob"], c["dist"], deg, s0)
            dm.seed = c["seed"]
            got = copy.copy(dm).generate_delay(c["runtime"])
            if got != ref:
                out.append(("C15.deterministic",
                            "result-depends-on-the-seed-the-model-was-built-"
                            "with:%s" % c["dist"],
                            {"constructed_with": s0, "alone": ref,
                             "reseeded": got}))
                break
    except Exception as e:
        return [("C15.never-fails", "raised-%s:%s:after-reseeding" % (
            type(e).__name__, c["dist"]), {"error": repr(e)})]
    return out


def judge_history(c, hist, coord):
    """[hist..., c] from a fresh module state must answer c like [c] does."""
    try:
        ref = _call(fresh_module(), c)
        mod = fresh_module()
        models = {}
        for p in hist:
            _call(mod, p, models)
        got = _call(mod, c, models)
    except Exception as e:
        return [("C15.never-fails", "raised-%s:%s:after-earlier-call" % (
            type(e).__name__, c["dist"]), {"error": repr(e)})]
    if got != ref:
        return [("C15.deterministic",
                 "result-depends-on-earlier-call:%s:%s" % (coord, c["dist"]),
                 {"alone": ref, "after": got, "earlier": hist})]
    return []

RULE = ("E3 (function): every (distribution in normal/poisson/uniform, "
        "degree NONE/LOW/MID/HIGH, probability {0,.1,.5,1}, seed, runtime "
        "incl. 0) of the stated ranges through the real DelayModel."
        "generate_delay: no exception, result >= runtime, == runtime for "
        "degree NONE / probability 0 / runtime 0, two fresh models agree; and "
        "EVERY call history [p, c] (thorough: also [p1, p2, c] over degrees) "
        "where the earlier call p differs from c in exactly one argument "
        "(degree, probability, distribution, seed+-1, runtime+-1/2r+3), "
        "started from a freshly executed private copy of the module, must "
        "answer c exactly as the one-call history [c] does.  "
        "E1 (simulation): EVERY delay vector in {0,1,2}^n over all tasks of "
        "small workflows (n<=4) injected through the generate_delay seam x "
        "pairings: every task that got d>0 is flagged and once it has "
        "completed the scheduler reports DELAYED from the next boundary on.  "
        "non-trivial = a delay was actually added")

DISTS = ("normal", "poisson", "uniform")
DEGREES = ("NONE", "LOW", "MID", "HIGH")
PROBS = (0, 0.1, 0.5, 1)


def judge_fn(c):
    if c.get("reseed"):
        return judge_reseed({k: v for k, v in c.items() if k != "reseed"})
    if c.get("history") is not None:
        return judge_history({k: v for k, v in c.items()
                              if k not in ("history", "coord")},
                             c["history"], c.get("coord", "?"))
    deg = getattr(DelayModel.DelayDegree, c["degree"])
    vs = []
    outs = []
    for rep in range(2):
        try:
            dm = DelayModel(c["prob"], c["dist"], deg, c["seed"])
            outs.append(dm.generate_delay(c["runtime"]))
        except Exception as e:
            return [("C15.never-fails", "raised-%s:%s%s" % (
                type(e).__name__, c["dist"],
                ":runtime0" if c["runtime"] == 0 else ""),
                {"error": repr(e)})]
    out = outs[0]
    if outs[0] != outs[1]:
        vs.append(("C15.deterministic", "same-seed-different-result:%s"
                   % c["dist"], {"results": outs}))
    if out < c["runtime"]:
        vs.append(("C15.never-shortens", "shortened:%s" % c["dist"],
                   {"runtime": c["runtime"], "result": out}))
    if (c["degree"] == "NONE" or c["prob"] == 0 or c["runtime"] == 0) \
            and out != c["runtime"]:
        vs.append(("C15.identity-cases", "changed-%s:%s" % (
            "degree-none" if c["degree"] == "NONE" else
            "probability-0" if c["prob"] == 0 else "runtime-0", c["dist"]),
            {"runtime": c["runtime"], "result": out}))
    try:
        if int(out) != out:
            vs.append(("C15.never-shortens", "non-integral-result:%s"
                       % c["dist"], {"result": out}))
    except Exception:
        pass
    return vs


def fn_domain(tier):
    seeds = range(256) if tier == "thorough" else range(32)
    runtimes = range(129) if tier == "thorough" else range(33)
    if tier == "thorough":
        seeds = list(seeds)[::4] + [20]
    for dist, deg, prob in itertools.product(DISTS, DEGREES,
                                             (0, 0.1, 0.5, 1)):
        for seed in seeds:
            for rt in runtimes:
                yield {"engine": "E3", "dist": dist, "degree": deg,
                       "prob": prob, "seed": seed, "runtime": rt}


def monitors_for(case):
    return [monitors.DelayReported()]


def sim_cases(tier):
    out = []
    dags = [("single", dag("single", [2])),
            ("chain2", dag("chain2", [1, 2], [1])),
            ("indep2", dag("indep2", [2, 1])),
            ("fork", dag("fork", [1, 2, 1], [1, 0])),
            ("diamond", dag("diamond", [1, 2, 2, 1], [0, 1, 0, 1]))]
    algs = [{"kind": "queue"}, {"kind": "batch", "p": 1, "min": 1}]
    for label, wa in dags:
        n = len(wa["nodes"])
        for machines in (CLUSTERS[1][0], CLUSTERS[2][1]):
            M = len(machines)
            obs = [mkobs("a", 0, 1, 1, 1, 1, "wa")]
            cfg = mkcfg(machines, obs, (100, 10), (100, 10), 2, 2)
            case = mkcase(cfg, {"wa": wa})
            rr = {"a": {str(x[0]): i % M for i, x in enumerate(wa["nodes"])}}
            for alg in algs + [{"kind": "dynamic", "assign": rr},
                               {"kind": "greedy", "assign": rr}]:
                for vec in itertools.product((0, 1, 2), repeat=n):
                    table = {"a:%d" % x[0]: d
                             for x, d in zip(wa["nodes"], vec) if d}
                    c = dict(case, alg=alg,
                             delay={"mode": "table", "table": table})
                    out.append(("S-delayvec/%s" % label, c))
    # static plans made for a slow machine, tasks moved to a faster one by the
    # greedy algorithm (planned machine taken): the added delay fits inside
    # the plan's slack and must still be flagged
    for label, wa in (("indep2-big", dag("indep2", [4, 4])),
                      ("fork-big", dag("fork", [1, 4, 4], [0, 0])),
                      ("indep3-big", dag("indep3", [6, 6, 2]))):
        n = len(wa["nodes"])
        for machines in ([[1, 1], [2, 2]], [[1, 1], [4, 4], [2, 2]]):
            obs = [mkobs("a", 0, 1, 1, 1, 1, "wa")]
            cfg = mkcfg(machines, obs, (100, 10), (100, 10), 2, 2)
            case = mkcase(cfg, {"wa": wa})
            for target in (0, len(machines) - 1):
                asg = {"a": {str(x[0]): target for x in wa["nodes"]}}
                for kind in ("greedy", "dynamic"):
                    for vec in itertools.product((0, 1, 2), repeat=n):
                        table = {"a:%d" % x[0]: d
                                 for x, d in zip(wa["nodes"], vec) if d}
                        out.append(("S-delayvec/static-slack/%s" % label,
                                    dict(case, alg={"kind": kind,
                                                    "assign": asg},
                                         delay={"mode": "table",
                                                "table": table})))
    # parallel branches of unequal length: a task listed later in the plan is
    # delayed and completes while an earlier-listed one is still unscheduled
    # behind a long predecessor
    for label, wa in (
            ("chains22-long-first", dag("chains22", [5, 1, 1, 1])),
            ("chains22-long-last", dag("chains22", [1, 1, 5, 1])),
            ("chains22-ids", dag("chains22", [5, 1, 1, 2],
                                 ids=[3, 1, 2, 0])),
            ("chain2+1", dag("chain2+1", [5, 1, 1])),
            ("chain2+1-ids", dag("chain2+1", [5, 1, 1], ids=[1, 2, 0]))):
        n = len(wa["nodes"])
        for machines in (CLUSTERS[2][0], CLUSTERS[3][0]):
            M = len(machines)
            obs = [mkobs("a", 0, 1, 1, 1, 1, "wa")]
            cfg = mkcfg(machines, obs, (100, 10), (100, 10), 2, 2)
            case = mkcase(cfg, {"wa": wa})
            rr = {"a": {str(x[0]): i % M for i, x in enumerate(wa["nodes"])}}
            for alg in algs + [{"kind": "dynamic", "assign": rr},
                               {"kind": "greedy", "assign": rr}]:
                for vec in itertools.product((0, 1, 3), repeat=n):
                    table = {"a:%d" % x[0]: d
                             for x, d in zip(wa["nodes"], vec) if d}
                    out.append(("S-delayvec/parallel-branches/%s" % label,
                                dict(case, alg=alg,
                                     delay={"mode": "table",
                                            "table": table})))
    # two workflows: delayed task of the first finishes while the second runs
    wa = dag("chain2", [1, 1], [0])
    # (s2 late: b reaches the scheduler after a's delayed task completed --
    # a delay once reported must stay reported)
    for s2 in (1, 2, 6, 9, 12):
        obs = [mkobs("a", 0, 1, 1, 1, 1, "wa"),
               mkobs("b", s2, 1, 1, 1, 1, "wb")]
        cfg = mkcfg(CLUSTERS[2][0], obs, (100, 10), (100, 10), 2, 2)
        for vec in itertools.product((0, 2), repeat=4):
            table = {k: d for k, d in zip(("a:0", "a:1", "b:0", "b:1"), vec)
                     if d}
            for alg in algs:
                out.append(("S-delayvec/two-workflows",
                            mkcase(cfg, {"wa": wa, "wb": wa}, alg,
                                   delay={"mode": "table", "table": table})))
    return out


def run(rep, tier, seed):
    rep.rule = RULE
    rep.assumptions = ["only the stated direction is demanded: a flag "
                       "without an injected delay is not a violation"]
    items = common.rotate(list(fn_domain(tier)), seed)

    def work(i, c):
        vs = [(a, b, d, c) for a, b, d in judge_fn(c)]
        nh = 0
        for coord, hist in histories(c, tier):
            nh += 1
            for a, b, d in judge_history(c, hist, coord):
                vs.append((a, b, d, dict(c, history=hist, coord=coord)))
        if c["runtime"] % 4 == 1:
            nh += 1
            for a, b, d in judge_reseed(c):
                vs.append((a, b, d, dict(c, reseed=True)))
        return vs, nh
    res, _ = engine.parallel_map(work, items, chunk=200)
    fired = 0
    for c, (vs, nh) in zip(items, res):
        s = rep.scope("E3-generate_delay/%s" % c["dist"])
        s["cases"] += 1
        s["executions"] += 2 + nh
        rep.evaluations += 1 + nh
        rep.transitions += 2 + 2 * nh
        if c["degree"] != "NONE" and c["prob"] > 0 and c["runtime"] > 0:
            fired += 1
        for clause, cause, det, payload in vs:
            rep.violation(clause, cause, payload, det, "E3-generate_delay")
    rep.add_sample(items[len(items) // 2])
    cs = common.rotate(sim_cases(tier), seed)
    e1.sweep(rep, cs, monitors_for, {})
    rep.nontrivial = (rep.nontrivial if isinstance(rep.nontrivial, int)
                      else 0) + fired
    rep.states = len(rep.states) + len(items)
    conf = rep.confirm

    def confirm(payload):
        if payload.get("engine") == "E3":
            return replay(payload)
        return conf(payload)
    rep.confirm = confirm


def replay(payload):
    if payload.get("engine") == "E3":
        return [{"clause": a, "cause": b, "detail": c}
                for a, b, c in judge_fn(payload)]
    vs, _ = e1.replay_payload(payload, monitors_for)
    return vs
