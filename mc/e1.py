"""Generic driver for E1 checks: enumerate static cases of named scopes,
explore each one's dynamic choices within the deviation budgets, run the
property's monitors on every execution, aggregate into the Reporter."""
import json
import time

from . import engine, run as runmod, world
from .engine import StateCounter
from .seams import HarnessError


def horizon_of(case, budgets=None):
    extra = 0
    if case.get("delay"):
        n = sum(len(case["wfs"][o["wf"]]["nodes"]) for o in case["cfg"]["obs"])
        arity = case["delay"].get("arity", 3)
        if case["delay"].get("mode") == "table":
            extra = sum(case["delay"].get("table", {}).values())
        else:
            extra = (arity - 1) * min(n, (budgets or {}).get("delay", n))
    return world.serial_bound(case, extra) + 1


def outcome_key(run):
    tt = runmod.task_table(run.sim)
    return hash((run.outcome, run.exc, run.end_time,
                 tuple(sorted((k, v[0], v[1]) for k, v in tt.items()))))


def replay_payload(payload, monitors_for):
    """Re-execute one recorded execution; returns list of violation dicts."""
    case = payload["case"]
    mons = monitors_for(case)
    r = runmod.execute(case, mons, tuple(payload.get("prefix", ())),
                       payload.get("horizon"), payload.get("light", True),
                       payload.get("tie", False), keep_snaps=True)
    return [dict(v) for v in r.violations], r


def sweep(rep, scoped_cases, monitors_for, budgets=None, light=True,
          tie=False, deadline=None, max_runs_per_case=20000,
          count_states=True, sample_every=None, judge_run=None,
          static_delay_budget=1):
    """scoped_cases: list of (scope name, case).  Mutates ``rep``."""
    budgets = budgets or {}
    rep.budgets = dict(budgets)
    if budgets.get("delay", 0) > static_delay_budget:
        rep.budgets["delay_for_static_pairings"] = static_delay_budget
    scoped_cases = list(scoped_cases)
    if deadline is None:
        import os
        cap = float(os.environ.get("VERIF_TIME_CAP", "0") or 0) or (
            2700 if rep.tier == "thorough" else 400)
        deadline = rep.t0 + cap

    def work(i, item):
        scope, case = item
        states = set()
        out = {"runs": 0, "events": 0, "viol": [], "nontrivial": 0,
               "outcomes": set(), "notes": {}, "sample": None,
               "capped": False}
        hz = horizon_of(case, budgets)

        def mk(case_):
            ms = list(monitors_for(case_))
            if count_states:
                ms.append(StateCounter(states))
            return ms

        def on_run(r, prefix):
            out["events"] += r.probe.n_events
            if r.notes.get("nontrivial"):
                out["nontrivial"] += 1
            for k, v in r.notes.items():
                out["notes"][k] = out["notes"].get(k, 0) + (1 if v else 0)
            out["outcomes"].add(outcome_key(r))
            if judge_run:
                judge_run(r)
            for v in r.violations:
                out["viol"].append(
                    (v["clause"], v["cause"], v["detail"], list(prefix),
                     v["t"]))
            if out["sample"] is None and (r.notes.get("nontrivial")
                                          or not prefix):
                out["sample"] = {
                    "case": case, "choices": list(r.choices),
                    "outcome": r.outcome, "end_time": r.end_time,
                    "events": r.probe.n_events,
                    "task_table": {k: [v[0], v[1]] for k, v in
                                   runmod.task_table(r.sim).items()}}

        b = budgets
        if case["alg"]["kind"] in ("dynamic", "greedy") \
                and budgets.get("delay", 0) > static_delay_budget:
            # all static assignments are enumerated: their product with two
            # delayed tasks does not fit the tier's time cap
            b = dict(budgets, delay=static_delay_budget)
        if case.get("budget_override"):
            b = dict(b, **case["budget_override"])
        try:
            n, capped = engine.explore_case(
                case, mk, b, hz, light, tie, on_run,
                max_runs=max_runs_per_case, keep_snaps=True)
        except HarnessError as e:
            # a prefix did not replay: executions of this case are not
            # independent of what the process ran before.  Keep what was
            # seen; the reporter decides (violations with a replayable
            # witness win, otherwise this is a harness error).
            n, capped = 0, False
            out["harness"] = "%s (case %s)" % (e, json.dumps(
                case, default=repr)[:300])
        out["runs"] = n
        out["capped"] = capped
        out["states"] = states
        out["hz"] = hz
        return out

    def heavy(item):
        c = item[1]
        return c["alg"]["kind"].startswith("adv") or (
            c.get("delay") and c["delay"].get("mode", "choice") == "choice")
    res, complete = engine.parallel_map(work, scoped_cases,
                                        deadline=deadline, heavy_first=heavy)
    if not complete:
        rep.cap("time cap reached: %d of %d static cases explored"
                % (sum(1 for r in res if r is not None), len(res)))
    for (scope, case), r in zip(scoped_cases, res):
        if r is None:
            continue
        sc = rep.scope(scope)
        sc["cases"] += 1
        sc["executions"] += r["runs"]
        rep.evaluations += r["runs"]
        rep.transitions += r["events"]
        rep.states |= r["states"]
        rep.outcomes |= r["outcomes"]
        if isinstance(rep.nontrivial, set):
            rep.nontrivial = 0
        rep.nontrivial += r["nontrivial"]
        for k, v in r["notes"].items():
            rep.extra.setdefault("notes", {})
            rep.extra["notes"][k] = rep.extra["notes"].get(k, 0) + v
        if r.get("harness"):
            rep.soft_errors.append(r["harness"])
        if r["capped"]:
            rep.cap("per-case execution cap hit in scope %s" % scope)
        if r["sample"] is not None and (
                len(rep.samples) < 3 and
                (not rep.samples or sc["cases"] == 1)):
            rep.add_sample(r["sample"])
        for clause, cause, detail, prefix, t in r["viol"]:
            rep.violation(clause, cause,
                          {"engine": "E1", "case": case, "prefix": prefix,
                           "horizon": r["hz"], "light": light, "tie": tie},
                          {"t": t, "detail": detail}, scope)
    if not rep.samples and res and res[0] is not None:
        rep.add_sample(res[0]["sample"])

    def confirm(payload):
        vs, _ = replay_payload(payload, monitors_for)
        return vs
    rep.confirm = confirm
    return res


def conformance(rep, scoped_cases, monitors_for=None, stride=1):
    """LIGHT is a model of FULL: run cases in both modes, require identical
    boundary-snapshot trajectories and task tables."""
    items = [c for k, (s, c) in enumerate(scoped_cases) if k % stride == 0]

    def work(i, case):
        hz = horizon_of(case)
        a = runmod.execute(case, (), (), hz, True, False, keep_snaps=True)
        b = runmod.execute(case, (), (), hz, False, False, keep_snaps=True)

        def norm(r):
            return (r.outcome, r.exc, r.end_time,
                    [runmod.freeze(r.bsnaps[t]) for t in sorted(r.bsnaps)],
                    sorted(runmod.task_table(r.sim).items()))
        na, nb = norm(a), norm(b)
        if na != nb:
            for k, (x, y) in enumerate(zip(na[3], nb[3])):
                if x != y:
                    return ("diff", case, k)
            return ("diff", case, (na[:3], nb[:3]))
        return ("same", None, None)

    res, complete = engine.parallel_map(work, items)
    bad = [r for r in res if r and r[0] == "diff"]
    if bad:
        # decided by the reporter: a note next to replayable violations,
        # a harness error (exit 2) otherwise
        rep.soft_errors.append("LIGHT and FULL modes diverge: %s" %
                               json.dumps(bad[0][1:], default=repr)[:800])
    rep.traces_validated += sum(1 for r in res if r and r[0] == "same")
    return len(items)
