"""C03 -- workflow precedence and data-transfer waits (DESIGN.md 5/C03)."""
import itertools

from .. import e1, monitors, world
from ..scopes import mkobs, mkcfg, mkcase, dag, CLUSTERS
from . import common

RULE = ("E1: catalogue DAGs x edge volumes {0,1,2,3} x heterogeneous "
        "clusters (integral and fractional vol/bw) x every shipped pairing "
        "(all static assignments) x 1-2 concurrent workflows x delays on <=1/2 "
        "tasks; oracle per task: ast >= aft(pred) and ast == max(allocation "
        "instant, aft(p)+vol/bw(receiver) over predecessors on another "
        "machine); non-trivial = task has predecessors")


def monitors_for(case):
    return [monitors.Precedence()]


def dag_menu(tier):
    vols = (0, 1, 2, 3)
    out = []
    for v in vols:
        out.append(("chain2", dag("chain2", [1, 2], [v])))
    for v1, v2 in ((0, 0), (1, 3), (3, 1), (2, 2)):
        out.append(("fork", dag("fork", [2, 1, 1], [v1, v2])))
        out.append(("join", dag("join", [1, 3, 1], [v1, v2])))
    for vs in ((0, 0, 0, 0), (1, 2, 0, 3), (3, 1, 2, 1), (2, 3, 3, 0)):
        out.append(("diamond", dag("diamond", [1, 2, 3, 1], list(vs))))
    out.append(("chain3", dag("chain3", [1, 0, 2], [3, 1])))
    # transfers that are still in flight when the successor is allocated
    # (volume/bandwidth well above the one-step allocation latency), several
    # at once, the slowest not listed last
    for v1, v2 in ((8, 3), (3, 8), (5, 5), (8, 0)):
        out.append(("join-long", dag("join", [1, 1, 1], [v1, v2])))
        out.append(("join-long", dag("join", [2, 1, 2], [v1, v2])))
    for vs in ((1, 2, 8, 3), (0, 0, 3, 8), (2, 2, 5, 5)):
        out.append(("diamond-long", dag("diamond", [1, 1, 1, 1], list(vs))))
    out.append(("wjoin-long", dag("wjoin", [1, 1, 1, 1], [8, 5, 3])))
    out.append(("wjoin-long", dag("wjoin", [1, 2, 1, 1], [3, 8, 5])))
    # an edge next to a longer path between the same two tasks (by-pass):
    # the bulky direct transfer decides the start, not the path
    for vs in ((1, 1, 8), (0, 0, 5), (3, 1, 8), (2, 2, 2)):
        out.append(("tri", dag("tri", [1, 1, 1], list(vs))))
    out.append(("diamond-skip", dag("diamond-skip", [1, 1, 2, 1],
                                    [1, 0, 1, 2, 9])))
    # nodes with and without a data demand in one workflow (runtime is
    # data-bound for some tasks only)
    out.append(("chain3-mixed-data", dag("chain3", [1, 1, 1], [1, 0],
                                         data=[4, None, None])))
    out.append(("fork-mixed-data", dag("fork", [1, 1, 2], [0, 2],
                                       data=[None, 5, None])))
    out.append(("tri-mixed-data", dag("tri", [1, 2, 1], [0, 1, 3],
                                      data=[6, None, 0])))
    out.append(("indep3-mixed-data", dag("indep3", [1, 1, 1],
                                         data=[3, None, 5])))
    if tier == "thorough":
        for vs in itertools.product((0, 1, 3), repeat=2):
            out.append(("chain3", dag("chain3", [2, 1, 1], list(vs))))
            out.append(("join", dag("join", [2, 1, 1], list(vs))))
        out.append(("fork3", dag("fork3", [1, 1, 2, 1], [1, 2, 3])))
    return out


def cases(tier, seed):
    out = []
    clusters = [[[1, 1], [1, 2]], [[2, 1], [1, 2]], [[1, 2], [2, 3]],
                [[1, 1], [2, 2], [1, 3]]]
    if tier == "thorough":
        clusters += [[[1, 1], [1, 1]], [[2, 3], [1, 2], [1, 1]]]
    wb = dag("chain2", [1, 1], [3])
    for machines in clusters:
        M = len(machines)
        for label, wa in dag_menu(tier):
            for two in (False, True):
                obs = [mkobs("a", 0, 1, 1, 1, 1, "wa")]
                wfs = {"wa": wa}
                if two:
                    obs.append(mkobs("b", 1, 1, 1, 1, 1, "wb"))
                    wfs["wb"] = wb
                cfg = mkcfg(machines, obs, (100, 10), (100, 10), 2, 2)
                case = mkcase(cfg, wfs)
                n = sum(len(w["nodes"]) for w in wfs.values())
                mode = "all" if (M ** n <= (729 if tier == "thorough"
                                             else 81)) else "diag"
                for alg in common.shipped(case, tier, mode):
                    c = dict(case)
                    c["alg"] = alg
                    c["delay"] = {"mode": "choice", "arity": 3}
                    if world.feasible(c):
                        out.append(("S-dag%s/%s" % ("2" if two else "1",
                                                    alg["kind"]), c))
    for sc, c in common.add_algs(common.ids_scope(tier),
                                 lambda c: common.shipped(c, tier, "diag")):
        out.append((sc, c))
    return common.rotate(out, seed)


def run(rep, tier, seed):
    rep.rule = RULE
    rep.assumptions = [
        "shipped algorithms only (the statement quantifies over them)",
        "static plans: all task->machine assignments of the scope",
        "set iteration order as under PYTHONHASHSEED=0 (C10 explores orders)"]
    cs = cases(tier, seed)
    budgets = {"delay": 2 if tier == "thorough" else 1}
    if tier != "thorough":
        cs2 = []
        for k, (sc, c) in enumerate(cs):
            if not common.keep(k, 3):
                c = dict(c)
                c.pop("delay", None)
            cs2.append((sc, c))
        cs = cs2
    e1.sweep(rep, cs, monitors_for, budgets)
    e1.conformance(rep, [x for x in cs if not x[1].get("delay")][:30])


def replay(payload):
    vs, _ = e1.replay_payload(payload, monitors_for)
    return vs
