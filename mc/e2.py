"""E2: explicit-state BFS over operation histories on a real Cluster.

A state is reached by replaying its history on fresh real objects (live
generators cannot be copied); canonical snapshots are hashed to prune histories
that reach a state already expanded.  Each transition calls the real method or
advances the real environment one instant.  Truth comes from the activation
log written by the wrappers in seams.py, not from the cluster's counters.
"""
import collections

from . import world, seams
from .seams import ProbeEnvironment, Probe
from .scopes import mkobs, mkcfg, mkcase, dag

from topsim.core.config import Config
from topsim.core.cluster import Cluster
from topsim.core.task import Task
from topsim.core.instrument import Observation

seams.install()

NAMES = ("a", "b")


def alphabet(M):
    ops = [("tick",)]
    for n in NAMES:
        for size in (1, 2, 0, M + 1):
            ops.append(("prov", n, size))
    for n in NAMES:
        ops.append(("rel", n))
    for demand in (1, 2):
        for dur in (1, 2):
            ops.append(("ingest", demand, dur))
    for m in range(M):
        for owner in (None,) + NAMES:
            for dur in (1, 2):
                ops.append(("alloc", m, owner, dur))
    return ops


# machine naming of the worlds built by this process (set before a BFS; the
# forked workers inherit it): None = m0.., "case" = distinct ids that differ
# only in letter case / surrounding blanks
ID_STYLE = None
CASE_IDS = ["node_a", "node_A", "node_b", " node_b", "NODE_A"]


def _cfg_path(M):
    cfg = mkcfg([[1, 1]] * M, [mkobs("z", 0, 1, 1, 1, 1, "wz")])
    if ID_STYLE == "case":
        cfg["mids"] = CASE_IDS[:M]
    return world.materialise(mkcase(cfg, {"wz": dag("single", [1])}))


class World:
    """A real Cluster on a probe environment + what the history did to it."""

    def __init__(self, M):
        self.M = M
        self.probe = Probe()
        self.env = ProbeEnvironment(self.probe)
        self.cluster = Cluster(self.env, Config(_cfg_path(M)))
        self.env.process(self.cluster.run())
        self.k = 0
        self.drain()

    def drain(self):
        """process every event of the current instant; returns the exception
        raised by a failing process, if any"""
        exc = None
        env = self.env
        while env._queue and env._queue[0][0] <= env.now:
            try:
                env.step()
            except Exception as e:            # a process failed: a refusal
                exc = e
        return exc

    def apply(self, op):
        """-> ('ok'|'refused', exception site or None)"""
        cl, env = self.cluster, self.env
        self.k += 1
        exc = None
        kind = op[0]
        try:
            if kind == "tick":
                target = env.now + 1
                while env._queue and env._queue[0][0] <= target:
                    try:
                        env.step()
                    except Exception as e:
                        exc = e
                if env.now < target:
                    env._now = target
            elif kind == "prov":
                cl.provision_batch_resources(op[2], op[1])
            elif kind == "rel":
                cl.release_batch_resources(op[1])
            elif kind == "ingest":
                obs = Observation("o%d" % self.k, env.now, op[2], 1, "none", 1)
                env.process(cl.provision_ingest_resources(op[1], obs))
                exc = self.drain()
            elif kind == "alloc":
                t = Task("t%d_0_0" % self.k, 0, op[3], None, [])
                env.process(cl.allocate_task_to_cluster(
                    t, cl.machines[op[1]], None, op[2]))
                exc = self.drain()
        except Exception as e:
            exc = e
        if exc is not None:
            return "refused", seams.exception_site(exc)
        return "ok", None

    # ---- observation ------------------------------------------------------
    def pools(self):
        res = self.cluster._clusters['default']['resources']
        return {"available": [m.id for m in res['available']],
                "ingest": [m.id for m in res['ingest']],
                "occupied": [m.id for m in res['occupied']],
                "idle": {k: [m.id for m in v]
                         for k, v in res['idle'].items()}}

    def live(self):
        """{machine id: [(ingest?, owner, elapsed, duration)]} from the
        activation log"""
        out = {}
        now = self.env.now
        for mid, recs in self.probe.live_alloc.items():
            for r in recs:
                out.setdefault(mid, []).append(
                    (r["ingest"], r["observation"] if not r["ingest"]
                     else None, now - r["t0"], r["task_obj"].duration))
        return out

    # ---- hidden state of suspended processes ------------------------------
    def _cv(self, v, depth=0):
        """canonical form of a local variable of a suspended generator"""
        res = self.cluster._clusters['default']['resources']
        if v is None or isinstance(v, (bool, int, float, str)):
            return v
        if isinstance(v, list):
            for k in ('available', 'ingest', 'occupied'):
                if v is res[k]:
                    return ("pool", k)
            for k, lst in res['idle'].items():
                if v is lst:
                    return ("pool", "idle:%s" % k)
            if depth > 2:
                return ("list", len(v))
            return ("list",) + tuple(self._cv(x, depth + 1) for x in v)
        if isinstance(v, dict):
            if v is res['idle']:
                return ("pool", "idle-dict")
            if depth > 1:
                return ("dict", len(v))
            return ("dict",) + tuple(sorted(
                (str(k), repr(self._cv(x, depth + 1))) for k, x in v.items()))
        if isinstance(v, (tuple, set, frozenset)):
            return (type(v).__name__,) + tuple(
                sorted(repr(self._cv(x, depth + 1)) for x in v))
        if isinstance(v, Task):
            now = self.env.now
            return ("task", v.duration, v.task_status.name,
                    None if v.ast is None or v.ast < 0 else v.ast - now,
                    None if v.aft is None or v.aft < 0 else v.aft - now)
        if hasattr(v, "cpu") and hasattr(v, "bandwidth"):
            return ("machine", v.id)
        if isinstance(v, Observation):
            return ("obs", v.duration, str(v.status))
        if hasattr(v, "triggered"):
            return ("event", bool(v.triggered))
        return type(v).__name__

    def frames(self):
        """(function, resume point, canonical locals) of every suspended
        topsim generator: state the pools do not show (e.g. a reference to a
        list kept across a yield) must not be merged away by state matching"""
        from simpy.events import Process
        out = []
        seen = set()
        for _, _, _, ev in self.env._queue:
            for cb in (ev.callbacks or ()):
                proc = getattr(cb, "__self__", None)
                if not isinstance(proc, Process) or id(proc) in seen:
                    continue
                seen.add(id(proc))
                g = proc._generator
                while getattr(g, "gi_yieldfrom", None) is not None and \
                        hasattr(g.gi_yieldfrom, "gi_frame"):
                    g = g.gi_yieldfrom
                fr = getattr(g, "gi_frame", None)
                if fr is None:
                    continue
                loc = tuple(sorted(
                    (k, repr(self._cv(v))) for k, v in fr.f_locals.items()
                    if k not in ("self", "env", "c")))
                out.append((g.gi_code.co_name, fr.f_lasti, loc))
        return tuple(sorted(out))

    def canon(self):
        return self._canon_pools() + (self.frames(),)

    def _canon_pools(self):
        p = self.pools()
        cl = self.cluster
        u = cl._clusters['default']['usage_data']
        tasks = cl._clusters['default']['tasks']
        live = self.live()
        dw = {mid: len(v) for mid, v in self.probe.live_dw.items() if v}
        return (tuple(p["available"]), tuple(p["ingest"]),
                tuple(p["occupied"]),
                tuple(sorted((k, tuple(v)) for k, v in p["idle"].items())),
                tuple(sorted((m, tuple(sorted(
                    (a, b or "", c, d) for a, b, c, d in v)))
                    for m, v in live.items())),
                tuple(sorted(dw.items())),
                len(tasks['running']),
                sum(1 for v in tasks['finished'].values() if v),
                sum(1 for v in tasks['finished'].values() if not v),
                u['available'], u['running_tasks'], u['finished_tasks'],
                u['ingest'], cl.num_provisioned_obs,
                cl._clusters['default']['ingest']['status'])


def judge(w, before, op, status):
    """violations (clause, cause, detail) of the state reached by op"""
    vs = []
    p = w.pools()
    mids = sorted(m.id for m in w.cluster.machines)
    allm = p["available"] + p["ingest"] + p["occupied"] + \
        [m for v in p["idle"].values() for m in v]
    if sorted(allm) != mids:
        lost = [m for m in mids if m not in allm]
        vs.append(("C02.partition",
                   "api:machine-%s" % ("lost" if lost else "duplicated"),
                   {"pools": p}))
    if status == "refused" and before is not None and w.canon() != before:
        vs.append(("C02.refusal-clean", "api:refused-%s-changed-state"
                   % op[0], {"op": op, "pools": p}))
    live = w.live()
    for mid in mids:
        recs = live.get(mid, [])
        if len(recs) > 1:
            vs.append(("C02.one-state-per-machine",
                       "api:machine-holds-two-tasks:%s" % "+".join(sorted(
                           "ingest" if r[0] else "task" for r in recs)),
                       {"machine": mid, "holders": recs, "pools": p}))
            continue
        want = ("free" if not recs else
                "ingest" if recs[0][0] else "occupied")
        got = ("ingest" if mid in p["ingest"] else
               "occupied" if mid in p["occupied"] else "free")
        if want != got:
            vs.append(("C02.pool-matches-activity",
                       "api:%s-machine-in-%s-pool" % (
                           {"free": "idle", "ingest": "ingesting",
                            "occupied": "working"}[want], got),
                       {"machine": mid, "pools": p, "holders": recs}))
    cl = w.cluster._clusters['default']
    u, tasks = cl['usage_data'], cl['tasks']
    free = len(mids) - len(p["ingest"]) - len(p["occupied"])
    if u['available'] != free:
        vs.append(("C02.count-free", "api:reported-%s" % (
            "more" if u['available'] > free else "fewer"),
            {"reported": u['available'], "true": free}))
    if u['running_tasks'] != len(tasks['running']):
        vs.append(("C02.count-running", "api:mismatch",
                   {"reported": u['running_tasks'],
                    "true": len(tasks['running'])}))
    nfin = sum(1 for v in tasks['finished'].values() if v)
    if u['finished_tasks'] != nfin:
        vs.append(("C02.count-finished", "api:mismatch",
                   {"reported": u['finished_tasks'], "true": nfin}))
    nlive = sum(len(v) for v in live.values())
    if len(tasks['running']) != nlive:
        vs.append(("C02.count-running", "api:running-list-vs-activations",
                   {"running": len(tasks['running']), "live": nlive}))
    # C19 (cluster part): idle only when nothing runs
    if w.cluster.is_idle():
        if tasks['running'] or nlive or p["ingest"] or p["occupied"] or \
                any(w.probe.live_dw.values()):
            vs.append(("C19.cluster-idle", "api:idle-while-busy",
                       {"pools": p, "running": len(tasks['running'])}))
    return vs


def bfs(M, depth, on_violation, max_states=None, ops=None):
    """-> dict(states, transitions, frontier_left, depth_done, idle_true,
    idle_false, refused)"""
    ops = ops or alphabet(M)
    w0 = World(M)
    seen = {w0.canon()}
    frontier = collections.deque([()])
    stats = {"states": 1, "transitions": 0, "refused": 0, "idle_true": 0,
             "idle_false": 0, "depth_done": 0, "complete": True}
    while frontier:
        hist = frontier.popleft()
        if len(hist) >= depth:
            continue
        stats["depth_done"] = max(stats["depth_done"], len(hist))
        for op in ops:
            w = World(M)
            for h in hist:
                w.apply(h)
            before = w.canon()
            status, site = w.apply(op)
            stats["transitions"] += 1
            if status == "refused":
                stats["refused"] += 1
            vs = judge(w, before, op, status)
            for v in vs:
                on_violation(v, hist + (op,))
            stats["idle_true" if w.cluster.is_idle() else "idle_false"] += 1
            k = w.canon()
            if k not in seen and not vs:
                seen.add(k)
                frontier.append(hist + (op,))
                if max_states and len(seen) >= max_states:
                    stats["complete"] = False
                    stats["states"] = len(seen)
                    return stats
    stats["states"] = len(seen)
    return stats


def replay_history(M, hist):
    w = World(M)
    vs = []
    for k, op in enumerate(hist):
        before = w.canon()
        status, site = w.apply(tuple(op))
        if k == len(hist) - 1:
            vs = judge(w, before, tuple(op), status)
    return vs


def bfs_parallel(M, depth, max_states=None, ops=None, deadline=None,
                 prop="C02."):
    """Level-synchronous BFS; each level's frontier is expanded by the worker
    pool, the parent deduplicates.  -> (stats, violations[(v, hist)])"""
    import time
    from . import engine
    ops = ops or alphabet(M)
    w0 = World(M)
    seen = {w0.canon()}
    frontier = [()]
    stats = {"states": 1, "transitions": 0, "refused": 0, "idle_true": 0,
             "idle_false": 0, "depth_done": 0, "complete": True,
             "levels": []}
    viols = []

    def expand(i, hist):
        out = []
        loc = {"tr": 0, "ref": 0, "it": 0, "if": 0}
        vv = []
        for op in ops:
            w = World(M)
            for h in hist:
                w.apply(h)
            before = w.canon()
            status, site = w.apply(op)
            loc["tr"] += 1
            if status == "refused":
                loc["ref"] += 1
            vs = [v for v in judge(w, before, op, status)
                  if v[0].startswith(prop)]
            for v in vs:
                vv.append((v, hist + (op,)))
            loc["it" if w.cluster.is_idle() else "if"] += 1
            if not vs:
                out.append((w.canon(), op))
        return out, loc, vv

    for level in range(depth):
        if not frontier:
            break
        res, complete = engine.parallel_map(expand, frontier, chunk=8,
                                            deadline=deadline)
        nxt = []
        for hist, r in zip(frontier, res):
            if r is None:
                stats["complete"] = False
                continue
            out, loc, vv = r
            stats["transitions"] += loc["tr"]
            stats["refused"] += loc["ref"]
            stats["idle_true"] += loc["it"]
            stats["idle_false"] += loc["if"]
            viols.extend(vv)
            for k, op in out:
                if k not in seen:
                    seen.add(k)
                    nxt.append(hist + (op,))
        stats["levels"].append({"depth": level + 1, "expanded":
                                len(frontier), "new_states": len(nxt)})
        stats["depth_done"] = level + 1
        frontier = nxt
        if not complete or (max_states and len(seen) >= max_states):
            stats["complete"] = False
            break
    stats["states"] = len(seen)
    stats["frontier_left"] = len(frontier)
    # a few of the deepest histories actually explored (for the evidence)
    stats["sample_histories"] = [[list(op) for op in h]
                                 for h in (frontier[:1] + frontier[-1:])]
    return stats, viols
