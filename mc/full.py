"""FULL-mode helpers: normalised monitor outputs of a real run."""
import math

from . import run as runmod, world
from .monitors import case_info

DROP = ("config",)


def _norm(v):
    if v is None:
        return None
    try:
        if isinstance(v, float) and math.isnan(v):
            return None
    except TypeError:
        pass
    if hasattr(v, "item"):
        try:
            v = v.item()
        except Exception:
            pass
    if isinstance(v, float) and v.is_integer():
        return int(v)
    return v


def df_rows(df):
    cols = [c for c in df.columns if not str(c).endswith("-algtime")
            and c not in DROP]
    out = []
    for _, row in df.iterrows():
        out.append({c: _norm(row[c]) for c in cols})
    return out


def task_rows(df):
    if df is None or len(df) == 0:
        return {}
    out = {}
    for tid, row in df.iterrows():
        out[str(tid)] = {c: _norm(row[c]) for c in df.columns
                         if c not in DROP}
    return out


def event_rows(ev):
    """the five documented fields of every entry (C13's view)"""
    if ev is None or len(ev) == 0:
        return []
    out = []
    for _, row in ev.iterrows():
        out.append((_norm(row["time"]), str(row["actor"]),
                    str(row["observation"]), str(row["resource"]),
                    str(row["event"])))
    return out


def event_rows_all(ev):
    """every column of every entry (what C10/C11 compare: the whole log)"""
    if ev is None or len(ev) == 0:
        return []
    cols = sorted(str(c) for c in ev.columns)
    out = []
    for idx, row in ev.iterrows():
        out.append(tuple((c, _norm(row[c]) if not isinstance(
            row[c], str) else row[c]) for c in cols))
    return out


def outputs(run):
    """(per-timestep rows, task table, event log) of a finished FULL run"""
    sim = run.sim
    return {"df": df_rows(sim.monitor.df),
            "tasks": task_rows(sim._generate_final_task_data()),
            "events": event_rows_all(sim.monitor.events)}


def truth_row(snap, M):
    """what row t must say, from the boundary snapshot of instant t"""
    return {
        "available_resources": M - len(snap["ingest"]) - len(snap["occupied"]),
        "ingest_resources": len(snap["ingest"]),
        "running_tasks": len(snap["running"]),
        "finished_tasks": sum(1 for v in snap["finished"].values() if v),
        "provisioned_observations": len(snap["idle"]),
        "hot_buffer": snap["hot_free"],
        "cold_buffer": snap["cold_free"],
        "stored": len(snap["hot_stored"]) + len(snap["cold_stored"]),
        "observations_waiting": sum(1 for o in snap["obs"]
                                    if o[1] == "WAITING"),
        "observations_finished": sum(1 for o in snap["obs"]
                                     if o[1] == "FINISHED"),
        # from the call log when present (the list object the scheduler's
        # loop appends to can differ from the attribute the column reads)
        "scheduler_observation_queue": len(snap.get("queue_log",
                                                    snap["queue"])),
    }
