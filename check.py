#!/venv/bin/python
"""Entry point of every registered check.

    check.py Cxx [--tier quick|thorough]     decide property Cxx on /repo
    check.py replay <file>                   re-run one recorded case

Exit 0: property held on everything explored (KNOWN-FINDING lines allowed);
exit 1: VIOLATION line(s) printed; exit 2: harness error.
"""
import importlib
import json
import os
import sys
import traceback

HERE = os.path.dirname(os.path.abspath(__file__))


def _reexec_deterministic():
    """Fixed hash seed so that enumeration order, set iteration inside topsim
    and state hashes are reproducible (C10 explores hash orders itself)."""
    if os.environ.get("PYTHONHASHSEED") != "0":
        env = dict(os.environ)
        env["PYTHONHASHSEED"] = "0"
        env["TQDM_DISABLE"] = "1"
        env["PYTHONDONTWRITEBYTECODE"] = "1"
        env["PYTHONWARNINGS"] = "ignore"
        os.execve(sys.executable, [sys.executable] + sys.argv, env)


def main(argv):
    _reexec_deterministic()
    sys.path.insert(0, HERE)
    import warnings
    warnings.filterwarnings("ignore")
    import mc
    mc.assert_repo_binding()
    from mc import world
    root = world.make_root()
    try:
        return _main(argv)
    finally:
        world.remove_root(root)


def _main(argv):
    import mc
    from mc.report import Reporter
    from mc.seams import HarnessError
    if len(argv) >= 2 and argv[0] == "replay":
        with open(argv[1]) as f:
            rec = json.load(f)
        mod = importlib.import_module("mc.checks.%s" % rec["property"])
        if isinstance(rec["payload"], dict) and rec["payload"].get("prelude"):
            from mc import run as runmod
            runmod.prelude(rec["payload"])
        vs = mod.replay(rec["payload"])
        sigs = {(v["clause"], v["cause"]) for v in vs}
        for v in vs:
            print("  %s / %s : %s" % (v["clause"], v["cause"],
                                      json.dumps(v.get("detail"),
                                                 default=repr)[:400]))
        if (rec["clause"], rec["cause"]) in sigs:
            print("VIOLATION property=%s replay=%s" % (rec["property"],
                                                       argv[1]))
            return 1
        print("replay: recorded violation %s/%s does not occur on this tree"
              % (rec["clause"], rec["cause"]))
        return 0
    pid = argv[0]
    tier = os.environ.get("VERIF_TIER", "quick")
    if "--tier" in argv:
        tier = argv[argv.index("--tier") + 1]
    seed = int(os.environ.get("VERIF_SEED", "0") or 0)
    mod = importlib.import_module("mc.checks.%s" % pid)
    rep = Reporter(pid, tier, seed)
    try:
        mod.run(rep, tier, seed)
        return rep.finish()
    except HarnessError as e:
        print("HARNESS-ERROR: %s" % e)
        return 2
    except Exception:
        traceback.print_exc()
        print("HARNESS-ERROR: unexpected exception in the checker")
        return 2


if __name__ == "__main__":
    sys.exit(main(sys.argv[1:]))
