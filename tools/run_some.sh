#!/bin/sh
# usage: run_some.sh <tier> <Cxx>...   (like run_all.sh for the named checks)
T="$1"; shift
cd "$(dirname "$0")/.."
for p in "$@"; do
  /venv/bin/python check.py $p --tier $T > /tmp/runall.$T.$p.log 2>&1
  echo "$p rc=$? $(tail -1 /tmp/runall.$T.$p.log | cut -c1-200)"
  grep -E "^(VIOLATION|KNOWN-FINDING|HARNESS)" /tmp/runall.$T.$p.log | cut -c1-220
done
