"""Regenerate MANIFEST.json from the table below (keeps it schema-valid)."""
import json, os, subprocess, sys
HERE = os.path.dirname(os.path.dirname(os.path.abspath(__file__)))
sys.path.insert(0, HERE)
from manifest_table import CHECKS, NOT_APPLICABLE, NOTES

props = [json.loads(l) for l in open(os.path.join(HERE, 'properties.jsonl'))]
ids = [p['id'] for p in props]
checks = []
for pid in ids:
    if pid not in CHECKS:
        continue
    c = CHECKS[pid]
    checks.append({
        "property_id": pid,
        "quick_cmd": "/venv/bin/python check.py %s --tier quick" % pid,
        "thorough_cmd": "/venv/bin/python check.py %s --tier thorough" % pid,
        "evidence_file": "/verif/evidence/%s.json" % pid,
        "replay_cmd_template": "/venv/bin/python check.py replay {path}",
        "engine": c["engine"],
        "level_claimed": {"category": "model_checking", "text": c["text"],
                          "design_ref": "DESIGN.md section 5/%s" % pid},
        "level_note": c["note"],
        "technique": c["technique"],
    })
na = [{"property_id": pid, "reason": NOT_APPLICABLE.get(
        pid, "check not built yet (work in progress in this session)")}
      for pid in ids if pid not in CHECKS]
man = {
    "version": 1,
    "setup_cmd": "mkdir -p /verif/evidence /verif/replays",
    "hooks": {"guard": "TOPSIM_VERIF", "enable": "none needed: all seams are installed from /verif by monkeypatching (simpy.Environment subclass, wrappers); /repo carries no instrumentation",
              "baseline_off_cmd": "cd /repo && /venv/bin/python -m pytest -ra -q -p no:cacheprovider --timeout=900 --continue-on-collection-errors",
              "source_commits": [], "add_only": True},
    "engines": [
        {"name": "E1", "path": "mc/e1.py", "serves_properties": [p for p in ids if p in CHECKS and "E1" in CHECKS[p]["engine"]],
         "kind_free_text": "stateless deviation-bounded exploration of the real Simulation under ProbeEnvironment (delays, adversarial proposals, tie promotions, hash orders, pause histories)"},
        {"name": "E2", "path": "mc/e2.py", "serves_properties": [p for p in ids if p in CHECKS and "E2" in CHECKS[p]["engine"]],
         "kind_free_text": "explicit-state BFS over operation sequences on real Cluster/Buffer objects with state matching and a lock-step reference model"},
        {"name": "E3", "path": "mc/checks", "serves_properties": [p for p in ids if p in CHECKS and "E3" in CHECKS[p]["engine"]],
         "kind_free_text": "exhaustive finite-domain enumeration of a pure function/component against a reference"}],
    "checks": checks,
    "not_applicable": na,
    "notes": NOTES,
}
with open(os.path.join(HERE, 'MANIFEST.json'), 'w') as f:
    json.dump(man, f, indent=1)
subprocess.check_call(["python3-vt", "-c",
    "import json,jsonschema;jsonschema.validate(json.load(open('%s/MANIFEST.json')),json.load(open('/root/.vp/MANIFEST.schema.json')));print('MANIFEST valid')" % HERE])
