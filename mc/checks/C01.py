"""C01 -- a machine never executes two tasks at once (DESIGN.md 5/C01)."""
from .. import e1, monitors, world
from . import common

RULE = ("E1: every static case of S-contend/S-contend3 x every shipped "
        "pairing (all static assignments where stated) and adversarial "
        "user algorithms; dynamic choices (task delays d in {0,1,2}, one "
        "illegal proposal from the live-state menu, promotion among tied "
        "allocate_tasks processes) explored exhaustively within the "
        "deviation budgets; non-trivial = the adversary injected a proposal "
        "or two allocation loops were live at once")


def monitors_for(case):
    return [monitors.MachineExclusive()]


def cases(tier, seed):
    lvl = "thorough" if tier == "thorough" else "quick"
    base = list(common.contend(lvl))
    out = []
    # (1) shipped pairings, tie promotions + (thorough) delays
    static_mode = "all" if tier == "thorough" else "diag"

    def shipped(case):
        M = len(case["cfg"]["machines"])
        n = sum(len(case["wfs"][o["wf"]]["nodes"])
                for o in case["cfg"]["obs"])
        mode = static_mode if M ** n <= 32 else "diag"
        return common.shipped(case, lvl, mode)
    for sc, c in common.add_algs(base, shipped):
        c = dict(c)
        c["delay"] = {"mode": "choice", "arity": 3}
        out.append((sc + "/shipped", c))
    for sc, c in common.add_algs(common.contend3(lvl),
                                 lambda c: common.shipped(c, lvl, "diag")):
        c = dict(c)
        c["delay"] = {"mode": "choice", "arity": 3}
        out.append((sc + "/shipped", c))
    # (1b) reservations taken and released one after the other, a later
    #      ingest (1-2 machines) starting while a later workflow runs
    for sc, c in common.add_algs(common.batch_seq_scope(lvl),
                                 common.batch_seq_algs):
        out.append((sc, c))
    # (1c) structural (zero-work) nodes allocated while another workflow
    #      allocates
    for sc, c in common.add_algs(common.zero_comp_scope(lvl),
                                 lambda c: common.shipped(c, lvl, "diag")):
        out.append((sc, dict(c, delay={"mode": "choice", "arity": 3})))
    # (2) adversaries
    adv_base = common.thin(base, 6 if tier == "thorough" else 7)
    for sc, c in adv_base:
        for alg in ({"kind": "advqueue", "budget": 1},
                    {"kind": "advbatch", "p": 2, "min": 1, "budget": 1},
                    {"kind": "advbatch", "p": 1, "min": 1, "budget": 1}):
            if tier == "thorough":
                alg = dict(alg, budget=2)
            cc = dict(c)
            cc["alg"] = alg
            if world.feasible(cc):
                out.append((sc + "/adversary", cc))
    if tier == "thorough":
        out = [(sc, dict(c, budget_override=dict(
            common.thorough_override(c, i), **c.get("budget_override", {}))))
            for i, (sc, c) in enumerate(out)]
    return common.rotate(out, seed)


def run(rep, tier, seed):
    rep.rule = RULE
    rep.assumptions = [
        "static planning side is EnumeratedStaticPlanning (all task->machine "
        "assignments), SHADOW is not installable here",
        "'executing' = live Task.do_work activation, observed after every "
        "SimPy event",
        "adversary's power is the schedule dict it returns"]
    cs = cases(tier, seed)
    if tier == "thorough":
        budgets = {"delay": 2, "adv": 2, "tie": 2}
    else:
        budgets = {"delay": 1, "adv": 1, "tie": 1}
    # quick: delays only on a third of the shipped cases (budget is per case)
    if tier != "thorough":
        cs2 = []
        for k, (sc, c) in enumerate(cs):
            if c.get("delay") and not common.keep(k, 16):
                c = dict(c)
                c.pop("delay", None)
            cs2.append((sc, c))
        cs = cs2
    e1.sweep(rep, cs, monitors_for, budgets, light=True, tie=True)
    sub = [x for x in cs if not x[1].get("delay")][:40]
    e1.conformance(rep, sub)


def replay(payload):
    vs, _ = e1.replay_payload(payload, monitors_for)
    return [v for v in vs if v["clause"].startswith("C01.")]
